#!/usr/bin/env python3
"""Build pipeline shared by every check.

prepare(scratch):  copy /repo's working tree, add zsimrt, instrument, copy the
harness module next to it, generate the runtime overlay.
build_test(scratch, pkg, out):  go test -c of one harness package against the
instrumented copy with the runtime overlay.
"""
import os, shutil, subprocess, sys, tempfile, hashlib, time

VERIF = os.path.dirname(os.path.dirname(os.path.abspath(__file__)))
REPO = os.environ.get("VERIF_REPO", "/repo")
GO = "/opt/veriftools/go1.26.8/bin/go"


def goenv(extra=None):
    env = dict(os.environ)
    env.update({
        "GOFLAGS": "-mod=mod",
        "GOPROXY": "off",
        "GOSUMDB": "off",
        "GOTOOLCHAIN": "local",
        "GONOSUMDB": "*",
        "GONOSUMCHECK": "1",
        "GOFIPS140": "off",
        "PATH": "/opt/veriftools/go1.26.8/bin:" + env.get("PATH", ""),
    })
    env.pop("GOROOT", None)
    if extra:
        env.update(extra)
    return env


class InfraError(Exception):
    pass


def run(cmd, cwd=None, env=None, timeout=1800):
    p = subprocess.run(cmd, cwd=cwd, env=env or goenv(), stdout=subprocess.PIPE, stderr=subprocess.STDOUT, timeout=timeout)
    out = p.stdout.decode("utf-8", "replace")
    if p.returncode != 0:
        raise InfraError("command failed (%d): %s\n%s" % (p.returncode, " ".join(cmd), out[-6000:]))
    return out


def instr_bin():
    """Build (once) the instrumenter into /verif/build."""
    out = os.path.join(VERIF, "build", "instr")
    src = os.path.join(VERIF, "sim", "instr", "main.go")
    if not os.path.exists(out) or os.path.getmtime(out) < os.path.getmtime(src):
        os.makedirs(os.path.dirname(out), exist_ok=True)
        run([GO, "build", "-o", out, src], cwd=os.path.join(VERIF, "sim", "instr"), env=goenv({"GOFLAGS": "-mod=mod", "GO111MODULE": "off"}))
    return out


def new_scratch(tag):
    base = os.environ.get("VERIF_SCRATCH_BASE", "/tmp")
    return tempfile.mkdtemp(prefix="verif-%s-" % tag, dir=base)


def copy_repo(dst, instrument=True):
    """Copy /repo's working tree (not .git) to dst."""
    os.makedirs(dst, exist_ok=True)
    run(["rsync", "-a", "--delete", "--exclude", ".git", REPO.rstrip("/") + "/", dst + "/"])
    if instrument:
        shutil.copytree(os.path.join(VERIF, "sim", "zsimrt"), os.path.join(dst, "zsimrt"))
        rep = os.path.join(os.path.dirname(dst), "instr-report.txt")
        out = run([instr_bin(), dst, rep])
        return rep, out
    return None, ""


def prepare(scratch, instrument=True):
    repo = os.path.join(scratch, "repo")
    rep, out = copy_repo(repo, instrument)
    sim = os.path.join(scratch, "sim")
    shutil.copytree(os.path.join(VERIF, "sim"), sim, ignore=shutil.ignore_patterns("instr", "overlay", "zsimrt"))
    sys.path.insert(0, os.path.join(VERIF, "lib"))
    import overlay
    try:
        extra_replaces = overlay.patched_module_copies(scratch)
    except RuntimeError as e:
        raise InfraError("third-party patch failed: %s" % e)
    with open(os.path.join(sim, "go.mod"), "w") as f:
        f.write("module verifsim\n\ngo 1.26\n\nrequire (\n\tgo.brendoncarroll.net/p2p v0.0.0\n\tgithub.com/anishathalye/porcupine v1.3.0\n)\n\nreplace go.brendoncarroll.net/p2p => ../repo\n" + "".join(l + "\n" for l in extra_replaces))
    sums = open(os.path.join(REPO, "go.sum")).read()
    sums += open(os.path.join(VERIF, "lib", "extra.sum")).read()
    with open(os.path.join(sim, "go.sum"), "w") as f:
        f.write(sums)
    ov = os.path.join(scratch, "overlay")
    if overlay.main(ov) != 0:
        raise InfraError("runtime overlay generation failed")
    return repo, sim, os.path.join(ov, "overlay.json")


def build_test(scratch, pkg, out, race=False, use_overlay=True, tags=None):
    sim = os.path.join(scratch, "sim")
    cmd = [GO, "test", "-c", "-vet=off", "-trimpath", "-o", out]
    if use_overlay:
        cmd += ["-overlay", os.path.join(scratch, "overlay", "overlay.json")]
    if race:
        cmd += ["-race"]
    cmd += ["-tags", tags or "verif"]  # the guarded hooks of /repo (MANIFEST.hooks) are always on in simulation binaries
    cmd += ["./" + pkg]
    t0 = time.time()
    run(cmd, cwd=sim)
    return time.time() - t0


def tree_fingerprint():
    """Hash of /repo's tracked+modified sources, recorded in evidence."""
    h = hashlib.sha256()
    for root, dirs, files in os.walk(REPO):
        dirs[:] = sorted(d for d in dirs if d != ".git")
        for fn in sorted(files):
            if fn.endswith(".go") or fn in ("go.mod", "go.sum"):
                p = os.path.join(root, fn)
                h.update(p.encode())
                h.update(open(p, "rb").read())
    return h.hexdigest()[:16]
