#!/usr/bin/env python3
"""Generate the runtime overlay used by simulation binaries.

Writes patched copies of three runtime files plus one added file into OUT and an
overlay.json that maps the GOROOT paths to them.  Every patch point is matched
exactly; if the installed toolchain differs the script exits 2 (infrastructure
failure), never silently producing an unpatched runtime.
"""
import json, os, sys

GOROOT = "/opt/veriftools/go1.26.8"

PATCHES = {
    "src/runtime/select.go": [
        ("\t\tj := cheaprandn(uint32(norder + 1))\n",
         "\t\tj := verifSelRand(uint32(norder + 1))\n"),
    ],
    "src/runtime/alg.go": [
        ("\t\thashkey[i] = uintptr(bootstrapRand())\n",
         "\t\thashkey[i] = uintptr(verifConst(uint64(i)))\n"),
        ("\t\tkey[i] = bootstrapRand()\n",
         "\t\tkey[i] = verifConst(uint64(i) + 1000)\n"),
    ],
    "src/runtime/rand.go": [
        ("func maps_rand() uint64 {\n\treturn rand()\n}\n",
         "func maps_rand() uint64 {\n\treturn 0\n}\n"),
    ],
}


# Third-party code patched for simulation binaries only (absolute paths in the module cache).
# quic-go v0.37.4 drains its timer with a blocking receive after a failed Stop; that relies on
# the pre-1.23 timer channels (asynctimerchan=1), which testing/synctest does not support. With
# the current semantics Stop has already discarded the stale value and the receive blocks
# forever. The patch makes the drain non-blocking, which is correct under both semantics.
MODCACHE_PATCHES = {
    "/root/go/pkg/mod/github.com/quic-go/quic-go@v0.37.4/internal/utils/timer.go": [
        ("\tif !t.t.Stop() && !t.read {\n\t\t<-t.t.C\n\t}\n",
         "\tif !t.t.Stop() && !t.read {\n\t\tselect {\n\t\tcase <-t.t.C:\n\t\tdefault:\n\t\t}\n\t}\n"),
    ],
}


def patched_module_copies(scratch):
    """Go refuses overlays beneath GOMODCACHE, so a patched third-party module is a writable copy
    in the scratch directory plus a replace directive. Returns the replace lines for go.mod."""
    import shutil, stat
    lines = []
    bymod = {}
    for src, subs in MODCACHE_PATCHES.items():
        moddir = src[:src.index("@")] + "@" + src[src.index("@") + 1:].split("/")[0]
        bymod.setdefault(moddir, []).append((src, subs))
    for moddir, files in bymod.items():
        if not os.path.isdir(moddir):
            continue  # not in the module cache: nothing that imports it can be built anyway
        modpath = moddir[len("/root/go/pkg/mod/"):].split("@")[0]
        dst = os.path.join(scratch, "mod-" + os.path.basename(modpath))
        shutil.copytree(moddir, dst)
        for root, dirs, fs in os.walk(dst):
            for n in dirs + fs:
                q = os.path.join(root, n)
                os.chmod(q, os.stat(q).st_mode | stat.S_IWUSR)
        for src, subs in files:
            f = os.path.join(dst, os.path.relpath(src, moddir))
            text = open(f).read()
            for old, new in subs:
                if text.count(old) != 1:
                    raise RuntimeError("patch point not found exactly once in %s: %r" % (src, old))
                text = text.replace(old, new)
            open(f, "w").write(text)
        lines.append("replace %s => ../%s" % (modpath, os.path.basename(dst)))
    return lines


def main(out):
    os.makedirs(out, exist_ok=True)
    here = os.path.dirname(os.path.abspath(__file__))
    added = os.path.join(here, "..", "sim", "overlay", "verif_sim.go")
    replace = {}
    for rel, subs in PATCHES.items():
        src = os.path.join(GOROOT, rel)
        try:
            text = open(src).read()
        except OSError as e:
            print("overlay: cannot read %s: %s" % (src, e), file=sys.stderr)
            return 2
        for old, new in subs:
            if text.count(old) != 1:
                print("overlay: patch point not found exactly once in %s: %r" % (src, old), file=sys.stderr)
                return 2
            text = text.replace(old, new)
        dst = os.path.join(out, rel.replace("/", "_"))
        with open(dst, "w") as f:
            f.write(text)
        replace[src] = dst
    dst = os.path.join(out, "verif_sim.go")
    with open(dst, "w") as f:
        f.write(open(added).read())
    replace[os.path.join(GOROOT, "src/runtime/verif_sim.go")] = dst
    with open(os.path.join(out, "overlay.json"), "w") as f:
        json.dump({"Replace": replace}, f, indent=1)
    return 0


if __name__ == "__main__":
    sys.exit(main(sys.argv[1]))
