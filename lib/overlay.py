#!/usr/bin/env python3
"""Generate the runtime overlay used by simulation binaries.

Writes patched copies of three runtime files plus one added file into OUT and an
overlay.json that maps the GOROOT paths to them.  Every patch point is matched
exactly; if the installed toolchain differs the script exits 2 (infrastructure
failure), never silently producing an unpatched runtime.
"""
import json, os, sys

GOROOT = "/opt/veriftools/go1.26.8"

PATCHES = {
    "src/runtime/select.go": [
        ("\t\tj := cheaprandn(uint32(norder + 1))\n",
         "\t\tj := verifSelRand(uint32(norder + 1))\n"),
    ],
    "src/runtime/alg.go": [
        ("\t\thashkey[i] = uintptr(bootstrapRand())\n",
         "\t\thashkey[i] = uintptr(verifConst(uint64(i)))\n"),
        ("\t\tkey[i] = bootstrapRand()\n",
         "\t\tkey[i] = verifConst(uint64(i) + 1000)\n"),
    ],
    "src/runtime/rand.go": [
        ("func maps_rand() uint64 {\n\treturn rand()\n}\n",
         "func maps_rand() uint64 {\n\treturn 0\n}\n"),
    ],
}


def main(out):
    os.makedirs(out, exist_ok=True)
    here = os.path.dirname(os.path.abspath(__file__))
    added = os.path.join(here, "..", "sim", "overlay", "verif_sim.go")
    replace = {}
    for rel, subs in PATCHES.items():
        src = os.path.join(GOROOT, rel)
        try:
            text = open(src).read()
        except OSError as e:
            print("overlay: cannot read %s: %s" % (src, e), file=sys.stderr)
            return 2
        for old, new in subs:
            if text.count(old) != 1:
                print("overlay: patch point not found exactly once in %s: %r" % (src, old), file=sys.stderr)
                return 2
            text = text.replace(old, new)
        dst = os.path.join(out, rel.replace("/", "_"))
        with open(dst, "w") as f:
            f.write(text)
        replace[src] = dst
    dst = os.path.join(out, "verif_sim.go")
    with open(dst, "w") as f:
        f.write(open(added).read())
    replace[os.path.join(GOROOT, "src/runtime/verif_sim.go")] = dst
    with open(os.path.join(out, "overlay.json"), "w") as f:
        json.dump({"Replace": replace}, f, indent=1)
    return 0


if __name__ == "__main__":
    sys.exit(main(sys.argv[1]))
