#!/usr/bin/env python3
"""Determinism self-test: run the same seeds of a property's simulation binary in
many fresh processes at GOMAXPROCS 1, 4 and 16 under different parallel load and
compare (trace hash, steps, violations, checks) per seed.
usage: selftest.py <PROP> [--seeds 64] [--procs 30]
Exit 0 if every seed agrees across all processes, 1 otherwise (first divergence printed)."""
import argparse, json, os, shutil, subprocess, sys, time
HERE = os.path.dirname(os.path.abspath(__file__))
sys.path.insert(0, HERE)
import build
from props import PROPS


def main():
    ap = argparse.ArgumentParser()
    ap.add_argument("prop")
    ap.add_argument("--seeds", type=int, default=64)
    ap.add_argument("--procs", type=int, default=30)
    ap.add_argument("--seed0", type=int, default=12345)
    args = ap.parse_args()
    cfg = PROPS[args.prop]
    s = build.new_scratch("selftest")
    try:
        build.prepare(s, instrument=cfg.get("instrument", True))
        binp = os.path.join(s, cfg["pkg"] + ".test")
        build.build_test(s, cfg["pkg"], binp)
        procs = []
        for i in range(args.procs):
            gmp = [1, 4, 16][i % 3]
            outp = os.path.join(s, "st-%d.jsonl" % i)
            env = build.goenv({"SIM_MODE": "batch", "SIM_SEED0": str(args.seed0), "SIM_FIRST": "0", "SIM_STRIDE": "1", "SIM_COUNT": str(args.seeds),
                               "SIM_TIER": "quick", "SIM_OUT": outp, "SIM_LEGS": ",".join(cfg["legs"]), "GOMAXPROCS": str(gmp)})
            env.update(cfg.get("env") or {})
            procs.append((outp, subprocess.Popen([binp, "-test.run", "^TestSim$", "-test.timeout", "0"], env=env, stdout=subprocess.DEVNULL, stderr=subprocess.DEVNULL, cwd=s)))
            if i % 7 == 6:
                time.sleep(0.3)  # vary the parallel load
        ref = None
        bad = 0
        for outp, p in procs:
            p.wait()
            cur = {}
            for line in open(outp):
                try:
                    d = json.loads(line)
                except ValueError:
                    continue
                if "result" in d:
                    r = d["result"]
                    cur[r["k"]] = (r.get("trace_hash"), r.get("steps"), r.get("checks"), json.dumps(r.get("violations") or [], sort_keys=True), r.get("ndecisions"))
            if ref is None:
                ref = cur
                continue
            for k in sorted(ref):
                if cur.get(k) != ref[k]:
                    bad += 1
                    if bad <= 5:
                        print("DIVERGENCE seed index %d: %s vs %s" % (k, ref[k][:3], (cur.get(k) or ())[:3]))
        n = len(ref or {})
        print("selftest %s: %d seeds x %d processes (GOMAXPROCS 1/4/16): %d divergences" % (args.prop, n, args.procs, bad))
        return 1 if bad or n == 0 else 0
    finally:
        shutil.rmtree(s, ignore_errors=True)


if __name__ == "__main__":
    sys.exit(main())
