#!/usr/bin/env python3
"""Development aid: replay a file and print violations (with details), cfg and sample. usage: replay_sample.py <PROP> <file>"""
import sys, json, os, shutil
sys.path.insert(0, os.path.dirname(os.path.abspath(__file__)))
import build, driver
from props import PROPS
prop, path = sys.argv[1], sys.argv[2]
cfg = PROPS[prop]
s = build.new_scratch('rs')
try:
    build.prepare(s); b = os.path.join(s, cfg['pkg'] + '.test'); build.build_test(s, cfg['pkg'], b, race=cfg.get('race', False))
    driver.EXTRA_ENV.update(cfg.get('env') or {})
    rf = json.load(open(path))
    res, crashed, err, dec = driver.replay_once(b, s, rf, want_log=False, timeout=900)
    if res is None:
        print('no result', err[-1500:]); sys.exit(1)
    for v in res.get('violations', []): print('V', v['class'], v['msg'][:200], v.get('detail'))
    print('cfg', res.get('cfg'))
    for x in res.get('sample') or []: print('  ', x[:200])
finally:
    shutil.rmtree(s, ignore_errors=True)
