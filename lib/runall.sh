#!/bin/sh
# usage: runall.sh [tier]  — every claimed check once, one line per check, then the probes that show unevaluated runs
cd /verif || exit 2
T=${1:-quick}
for p in $(python3 -c "
import sys; sys.path.insert(0,'lib'); import props; print(' '.join(sorted(props.PROPS)))"); do
  s=$(date +%s); out=$(./check $p --tier $T 2>&1); rc=$?; e=$(date +%s)
  echo "$p rc=$rc $((e-s))s $(echo "$out" | grep -E '^(OK|VIOLATION|KNOWN|INFRA)' | cut -c1-160 | tr '\n' ';')"
done
python3 - <<'PY'
import json,glob
for f in sorted(glob.glob('/verif/evidence/C*.json')):
    d=json.load(open(f)); c=d['coverage']; pr=c.get('probes',{})
    print(f[-8:-5], 'evals',c.get('evaluations'),'nontrivial',c.get('distinct_nontrivial'), {k:v for k,v in pr.items() if 'cap' in k or 'unfinished' in k or 'other-prop' in k or 'unidentified' in k})
PY
