#!/bin/sh
# usage: seed_eval.sh <seeded-id> <check-id> [check args]
# applies /verif/seeded/<id>/patch.diff to /repo's working tree, runs the check, restores the tree straight afterwards.
# (experimental replays/evidence of such runs go to /tmp: VERIF_REPLAYS / the evidence of /repo proper is restored afterwards)
SID=$1; ID=$2; shift 2
cd /repo || exit 2
if [ -n "$(git status --porcelain)" ]; then echo "repo dirty"; exit 2; fi
cp /verif/evidence/$ID.json /tmp/seed-eval-evidence-$ID.json 2>/dev/null
git apply /verif/seeded/$SID/patch.diff || { git checkout -- .; exit 2; }
s=$(date +%s)
out=$(cd /verif && ./check $ID --no-min "$@" 2>&1 | grep -E "^(violation|VIOLATION|OK|KNOWN|INFRA)" | cut -c1-330 | head -6)
e=$(date +%s)
git checkout -- .
cp /tmp/seed-eval-evidence-$ID.json /verif/evidence/$ID.json 2>/dev/null; rm -f /tmp/seed-eval-evidence-$ID.json
echo "== $SID under ./check $ID $* ($((e-s)) s)"; echo "$out"
{ echo "== ./check $ID --no-min $* ($((e-s)) s)"; echo "$out"; } >> /verif/seeded/$SID/eval.txt
