#!/usr/bin/env python3
"""Generate /verif/MANIFEST.json from lib/props.py (single source of truth)."""
import json, os, sys
HERE = os.path.dirname(os.path.abspath(__file__))
VERIF = os.path.dirname(HERE)
sys.path.insert(0, HERE)
from props import PROPS, NOT_APPLICABLE, PENDING

ids = [json.loads(l)["id"] for l in open(os.path.join(VERIF, "properties.jsonl"))]
checks = []
for pid in ids:
    if pid not in PROPS:
        continue
    c = PROPS[pid]
    checks.append({
        "property_id": pid,
        "quick_cmd": "./check %s --tier quick" % pid,
        "thorough_cmd": "./check %s --tier thorough" % pid,
        "evidence_file": "evidence/%s.json" % pid,
        "replay_cmd_template": "./check %s --replay {path}" % pid,
        "engine": c.get("engine", "simrt"),
        "level_claimed": {"category": "exploration", "text": c["level_text"], "design_ref": c.get("design_ref", "DESIGN.md §6 " + pid)},
        "level_note": c["level_note"],
        "technique": c.get("technique", "deterministic simulation with fault injection: seeded search over schedules and fault sequences, oracle over the recorded history"),
    })
na = []
for pid in ids:
    if pid in PROPS:
        continue
    if pid in NOT_APPLICABLE:
        na.append({"property_id": pid, "reason": NOT_APPLICABLE[pid]})
    else:
        na.append({"property_id": pid, "reason": PENDING})
m = {
    "version": 1,
    "setup_cmd": "./setup.sh",
    "hooks": {
        "guard": "verif",
        "enable": "every check copies /repo's working tree to a scratch directory, adds scheduler yield points there by source instrumentation (sim/instr) and builds it with go1.26.8, a runtime overlay (lib/overlay.py) and -tags verif (lib/build.py). The tag turns on the one guarded hook in /repo: s/fragswarm/verif_hook_on.go and p/mbapp/verif_hook_on.go export the starting value of the fragment message ids and of the message-box counter, which the simulation draws per run (header sizes depend on them, and they wrap at 2^32); with the tag off both start at 0 as before",
        "baseline_off_cmd": "python3 lib/baseline.py",
        "source_commits": ["cd18d4f"],
        "add_only": True,
    },
    "engines": [
        {"name": "simrt", "path": "sim/zsimrt", "serves_properties": [p for p in ids if p in PROPS and PROPS[p].get("engine", "simrt") == "simrt"],
         "kind_free_text": "parking scheduler for instrumented goroutines inside a testing/synctest bubble; one seeded choice stream decides task order, select case order, network faults, clock advances and workload; replay files are decision lists"},
        {"name": "seqsim", "path": "sim/simcore", "serves_properties": [p for p in ids if p in PROPS and PROPS[p].get("engine") == "seqsim"],
         "kind_free_text": "single-threaded discrete-event simulation for goroutine-free code (P2PKE sessions, Kademlia cache and DHT): the harness is network, clock and adversary; same choice stream, replay and minimisation"},
    ],
    "checks": checks,
    "not_applicable": na,
    "notes": "See DESIGN.md. Exit 2 from a check means infrastructure trouble (build, watchdog, non-reproducible run), never a violation. known_findings.json lists genuine defects recorded or fixed.",
}
json.dump(m, open(os.path.join(VERIF, "MANIFEST.json"), "w"), indent=1)
print("MANIFEST.json: %d checks, %d not claimed" % (len(checks), len(na)))
