#!/bin/sh
# usage: mutant.sh <check-id> <file> <python-replace-expr-old> <new>  — applies a textual mutation to /repo, runs the check, reverts.
# For sensitivity experiments only; never leaves /repo modified.
ID=$1; FILE=$2; OLD=$3; NEW=$4; shift 4
cd /repo || exit 2
if [ -n "$(git status --porcelain)" ]; then echo "repo dirty"; exit 2; fi
python3 - "$FILE" "$OLD" "$NEW" <<'PY'
import sys
p, old, new = sys.argv[1], sys.argv[2], sys.argv[3]
s = open(p).read()
if s.count(old) != 1:
    print("mutation point found %d times" % s.count(old)); sys.exit(3)
open(p, "w").write(s.replace(old, new))
PY
rc=$?
if [ $rc -ne 0 ]; then git checkout -- .; exit 2; fi
(cd /verif && ./check $ID "$@" 2>&1 | tail -6)
git checkout -- .
