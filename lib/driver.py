#!/usr/bin/env python3
"""Check driver: build, fan seeds out over worker processes, aggregate, replay,
minimise, match known findings, write evidence.  Exit codes: 0 held, 1 violation
(with a VIOLATION line), 2 infrastructure trouble (never a VIOLATION)."""
import argparse, collections, json, os, shutil, subprocess, sys, time, hashlib, signal

HERE = os.path.dirname(os.path.abspath(__file__))
VERIF = os.path.dirname(HERE)
sys.path.insert(0, HERE)
import build
from props import PROPS

NCPU = int(os.environ.get("VERIF_WORKERS", "16"))


def log(*a):
    print(*a, flush=True)


def load_known():
    p = os.path.join(VERIF, "known_findings.json")
    if not os.path.exists(p):
        return []
    return json.load(open(p)).get("findings", [])


def match_known(known, prop, leg, viol):
    """A finding matches one violation EVENT: same property, same class, and every
    key of its 'where' equals the event's detail (or leg)."""
    for k in known:
        if k.get("status") == "fixed":
            continue
        if k["property"] != prop or k["class"] != viol.get("class"):
            continue
        ok = True
        for key, val in k.get("where", {}).items():
            if key == "leg":
                if leg != val:
                    ok = False
            elif key == "msg_contains":
                if val not in viol.get("msg", ""):
                    ok = False
            elif (viol.get("detail") or {}).get(key) != val:
                ok = False
        if ok:
            return k
    return None


LIVE = []


class Worker:
    def __init__(self, binpath, env, outpath, errpath):
        LIVE.append(self)
        self.out = outpath
        self.errpath = errpath
        self.errf = open(errpath, "wb")
        self.p = subprocess.Popen([binpath, "-test.run", "^TestSim$", "-test.timeout", "0"], env=env,
                                  stdout=subprocess.DEVNULL, stderr=self.errf, cwd=os.path.dirname(binpath))


def read_out(path):
    starts, results = [], []
    if not os.path.exists(path):
        return starts, results
    for line in open(path, errors="replace"):
        line = line.strip()
        if not line:
            continue
        try:
            d = json.loads(line)
        except ValueError:
            continue
        if "start" in d:
            starts.append(d)
        elif "result" in d:
            results.append(d)
    return starts, results


BATCH_FILES = [0]  # output files are unique across the batches of one invocation
STALL_S = 150  # a worker whose output has not grown for this long is stuck: dumped, killed and reported (exit 2)


def run_batch(binpath, scratch, prop, tier, seed0, total, legs, wall_budget, extra_env=None, one_per_process=False, stall_s=None):
    """Run `total` seeds over NCPU processes. Returns (results, crashes)."""
    progress = {}  # worker -> (size of its out file, time of last growth)
    nw = min(NCPU, max(1, total))
    per = (total + nw - 1) // nw
    rdir = os.path.join(scratch, "replays")
    os.makedirs(rdir, exist_ok=True)
    results, crashes = [], []
    pending = []  # (worker index, first k, count)
    if one_per_process:
        # runs that leave goroutines behind must not share a process with the next run
        for k in range(total):
            pending.append((k, k, 1))
    else:
        for w in range(nw):
            pending.append((w, w, per))
    active = {}
    deadline = time.time() + wall_budget
    gen = 0
    timed_out = False
    while pending or active:
        while pending and len(active) < nw and time.time() < deadline:
            w, first, count = pending.pop(0)
            if count <= 0:
                continue
            gen += 1
            BATCH_FILES[0] += 1
            outp = os.path.join(scratch, "out-%d-%d-%d.jsonl" % (w, gen, BATCH_FILES[0]))
            errp = os.path.join(scratch, "err-%d-%d-%d.txt" % (w, gen, BATCH_FILES[0]))
            env = build.goenv({
                "SIM_MODE": "batch", "SIM_SEED0": str(seed0), "SIM_FIRST": str(first), "SIM_STRIDE": str(nw),
                "SIM_COUNT": str(count), "SIM_TIER": tier, "SIM_OUT": outp, "SIM_REPLAY_DIR": rdir,
                "SIM_LEGS": ",".join(legs), "GOMAXPROCS": "2", "GOTRACEBACK": "single",
            })
            if extra_env:
                env.update(extra_env)
            active[w] = (Worker(binpath, env, outp, errp), first, count)
        time.sleep(0.05)
        for w in list(active):
            wk, first, count = active[w]
            rc = wk.p.poll()
            if rc is None:
                try:
                    sz = os.path.getsize(wk.out)
                except OSError:
                    sz = 0
                if progress.get(w, (None, 0))[0] != (wk.out, sz):
                    progress[w] = ((wk.out, sz), time.time())
                elif time.time() - progress[w][1] > (stall_s or STALL_S):
                    wk.p.send_signal(signal.SIGQUIT)
                    try:
                        wk.p.wait(timeout=20)
                    except subprocess.TimeoutExpired:
                        wk.p.kill()
                        wk.p.wait()
                    wk.errf.close()
                    starts, res = read_out(wk.out)
                    done = {r["result"]["k"] for r in res}
                    bad = [s_ for s_ in starts if s_["start"] not in done]
                    err = open(wk.errpath, errors="replace").read()
                    raise Stalled("a run made no progress for %d s of wall time (%s); goroutine dump:\n%s" % (stall_s or STALL_S, bad[-1] if bad else "?", err[-6000:]))
                if time.time() > deadline:
                    wk.p.kill()
                    wk.p.wait()
                    timed_out = True
                    starts, res = read_out(wk.out)
                    results.extend(res)
                    del active[w]
                continue
            wk.errf.close()
            starts, res = read_out(wk.out)
            results.extend(res)
            del active[w]
            if rc != 0:
                done = {r["result"]["k"] for r in res}
                bad = [s for s in starts if s["start"] not in done]
                err = open(wk.errpath, errors="replace").read()
                if bad:
                    b = bad[-1]
                    crashes.append({"k": b["start"], "seed": b["seed"], "leg": b.get("leg", ""), "rc": rc, "stderr": err[-8000:]})
                    nxt = b["start"] + nw
                    remaining = count - (len(res) + 1)
                    if remaining > 0 and time.time() < deadline:
                        pending.append((w, nxt, remaining))
                else:
                    crashes.append({"k": -1, "seed": 0, "leg": "", "rc": rc, "stderr": err[-8000:]})
        if time.time() > deadline and not active:
            if pending:
                timed_out = True
            break
    return [r["result"] for r in results], crashes, timed_out


class Stalled(Exception):
    pass


EXTRA_ENV = {}


TB_BIN = [None]  # binary serving the Tier B legs when it is not the property's own


def replay_once(binpath, scratch, rf, want_log=False, timeout=120):
    """Run one replay file in a fresh process. Returns (result or None, crashed, stderr, decisions)."""
    if TB_BIN[0] and is_tierb(rf.get("leg", "")):
        binpath = TB_BIN[0]
    tag = hashlib.sha1(json.dumps(rf["decisions"]).encode()).hexdigest()[:12] + ("-%d" % os.getpid()) + ("-%d" % int(time.time() * 1e6))
    rp = os.path.join(scratch, "rp-%s.json" % tag)
    outp = os.path.join(scratch, "rp-%s.out" % tag)
    with open(rp, "w") as f:
        json.dump(rf, f)
    env = build.goenv({"SIM_MODE": "replay", "SIM_REPLAY": rp, "SIM_OUT": outp, "GOMAXPROCS": "2", "GOTRACEBACK": "single"})
    env.update(EXTRA_ENV)
    if want_log:
        env["SIM_LOG"] = "1"
    try:
        p = subprocess.run([binpath, "-test.run", "^TestSim$", "-test.timeout", "0"], env=env, stdout=subprocess.DEVNULL,
                           stderr=subprocess.PIPE, timeout=timeout, cwd=os.path.dirname(binpath))
        rc, err = p.returncode, p.stderr.decode("utf-8", "replace")
    except subprocess.TimeoutExpired:
        rc, err = -9, "replay timed out"
    res, dec = None, None
    if os.path.exists(outp):
        for line in open(outp, errors="replace"):
            try:
                d = json.loads(line)
            except ValueError:
                continue
            if "result" in d:
                res, dec = d["result"], d.get("decisions")
    for p_ in (rp, outp):
        try:
            os.remove(p_)
        except OSError:
            pass
    return res, (rc != 0 and res is None), err, dec


KNOWN_CTX = {"known": [], "prop": None}


def is_tierb(leg):
    if leg.startswith(("race:", "own:")):
        return False
    return leg.startswith("quic/") or leg in ("udp", "ssh", "udp6") or leg.endswith("/udp") or leg.endswith("/ssh")


def classes_of(res, crashed, err):
    """Classes of the violation events of one replay that no known finding matches:
    a replay (and every minimisation candidate) must show an UNLISTED event of the class."""
    if crashed:
        return {crash_class(err)}
    if res is None:
        return set()
    out = set()
    for v in res.get("violations", []):
        if match_known(KNOWN_CTX["known"], KNOWN_CTX["prop"], res.get("leg", ""), v) is None:
            out.add(v["class"])
    return out


def crash_class(err):
    for line in err.splitlines():
        if line.startswith("panic:") or line.startswith("fatal error:"):
            return "process-crash"
    return "process-crash"


def minimise(binpath, scratch, rf, cls, budget_s):
    """Delta-debug the decision list: keep a candidate iff a replay in a fresh
    process still shows a violation of class cls."""
    t_end = time.time() + budget_s
    cur = list(rf["decisions"])
    tries = [0]

    def test(cand):
        if time.time() > t_end:
            return False
        tries[0] += 1
        r = dict(rf)
        r["decisions"] = cand
        res, crashed, err, dec = replay_once(binpath, scratch, r)
        return cls in classes_of(res, crashed, err)

    # 1. truncate tail (binary search for shortest prefix)
    lo, hi = 0, len(cur)
    while lo < hi and time.time() < t_end:
        mid = (lo + hi) // 2
        if test(cur[:mid]):
            hi = mid
        else:
            lo = mid + 1
    cur = cur[:hi]
    # 2. ddmin: zero out chunks (zero = simplest choice) then delete chunks
    for mode in ("zero", "delete"):
        n = 2
        while len(cur) >= 1 and time.time() < t_end:
            chunk = max(1, len(cur) // n)
            changed = False
            i = 0
            while i < len(cur) and time.time() < t_end:
                j = min(len(cur), i + chunk)
                if mode == "zero":
                    if any(cur[i:j]):
                        cand = cur[:i] + [0] * (j - i) + cur[j:]
                    else:
                        i = j
                        continue
                else:
                    cand = cur[:i] + cur[j:]
                if test(cand):
                    cur = cand
                    changed = True
                    if mode == "zero":
                        i = j
                else:
                    i = j
            if chunk == 1:
                if not changed:
                    break
            else:
                n = min(len(cur), n * 2) if not changed else n
                if n < 2:
                    n = 2
    out = dict(rf)
    out["decisions"] = cur
    out["minimised"] = True
    return out, tries[0]


def main(argv=None):
    ap = argparse.ArgumentParser()
    ap.add_argument("prop")
    ap.add_argument("--tier", default=os.environ.get("VERIF_TIER", "quick"))
    ap.add_argument("--seed", type=int, default=None)
    ap.add_argument("--runs", type=int, default=None)
    ap.add_argument("--replay", default=None)
    ap.add_argument("--legs", default=None)
    ap.add_argument("--keep", action="store_true")
    ap.add_argument("--no-min", action="store_true")
    ap.add_argument("--ignore-known", action="store_true", help="development aid: report known findings as violations (to obtain their replay files)")
    args = ap.parse_args(argv)
    prop = args.prop
    if prop not in PROPS:
        log("unknown property", prop)
        return 2
    cfg = PROPS[prop]
    tier = args.tier if args.tier in ("quick", "thorough") else "quick"
    seed0 = args.seed if args.seed is not None else int(os.environ.get("VERIF_SEED", "1") or "1")
    t0 = time.time()
    scratch = build.new_scratch(prop.lower())
    try:
        return _main(args, prop, cfg, tier, seed0, t0, scratch)
    except build.InfraError as e:
        log("INFRA-ERROR:", str(e)[-4000:])
        return 2
    except subprocess.TimeoutExpired as e:
        log("INFRA-ERROR: timeout", e)
        return 2
    except Stalled as e:
        log("INFRA-ERROR: stalled:", str(e))
        return 2
    finally:
        for wk in list(LIVE):
            try:
                wk.p.kill()
                wk.p.wait()
            except Exception:
                pass
        if not args.keep:
            shutil.rmtree(scratch, ignore_errors=True)
        else:
            log("scratch kept at", scratch)


def _main(args, prop, cfg, tier, seed0, t0, scratch):
    if cfg.get("custom"):
        return cfg["custom"](args, prop, cfg, tier, seed0, t0, scratch)
    EXTRA_ENV.update(cfg.get("env") or {})
    build.prepare(scratch, instrument=cfg.get("instrument", True))
    binpath = os.path.join(scratch, cfg["pkg"] + ".test")
    bt = build.build_test(scratch, cfg["pkg"], binpath, use_overlay=cfg.get("overlay", True), race=cfg.get("race", False))
    tbpkg = (cfg.get("tierb") or {}).get("pkg")
    if tbpkg and tbpkg != cfg["pkg"]:
        # the Tier B legs of this property live in another simulation package
        TB_BIN[0] = os.path.join(scratch, tbpkg + ".test")
        bt += build.build_test(scratch, tbpkg, TB_BIN[0], use_overlay=cfg.get("overlay", True))
    log("built %s in %.1fs (tree %s)" % (cfg["pkg"], bt, build.tree_fingerprint()))
    legs = args.legs.split(",") if args.legs else cfg["legs"]

    KNOWN_CTX["known"], KNOWN_CTX["prop"] = ([] if args.ignore_known else load_known()), prop
    if args.replay:
        rf = json.load(open(args.replay))
        if rf.get("by_seed"):
            # a run that killed its process has no recorded decision list: the seed replays it
            results, crashes, _ = run_batch(binpath, scratch, prop, rf.get("tier", tier), rf["seed0"], 1, rf["legs"], 600,
                                            extra_env=dict(cfg.get("env") or {}, SIM_FIRST=str(rf["k"])))
            if crashes:
                log("replay: the process crashed again:", first_panic_line(crashes[0]["stderr"]))
                log(crashes[0]["stderr"][-2500:])
                log("VIOLATION property=%s replay=%s" % (prop, args.replay))
                return 1
            log("replay: no crash")
            return 0
        res, crashed, err, dec = replay_once(binpath, scratch, rf, want_log=True, timeout=600)
        cls = classes_of(res, crashed, err)
        want = (rf.get("violation") or {}).get("class")
        log("replay classes:", sorted(cls), "expected:", want)
        for v in (res or {}).get("violations", []):
            log("  violation:", v.get("class"), "-", (v.get("msg") or "")[:400])
        if res and res.get("log"):
            for line in res["log"][-200:]:
                log("  ", line)
        if crashed:
            log(err[-3000:])
        if want in cls:
            log("VIOLATION property=%s replay=%s" % (prop, args.replay))
            return 1
        return 0

    total = args.runs or cfg["runs"][tier]
    budget = cfg.get("budget", {"quick": 240, "thorough": 3600})[tier]
    # Tier B legs (third-party goroutines, real clock) leave goroutines behind: they run in a batch
    # of their own, one run per process
    tb = cfg.get("tierb")
    tb_legs = [l for l in legs if is_tierb(l)]
    legs = [l for l in legs if not is_tierb(l)]
    if tb and not args.legs:
        tb_legs = list(tb["legs"])
    results, crashes, timed_out = [], [], False
    if legs:
        results, crashes, timed_out = run_batch(binpath, scratch, prop, tier, seed0, total, legs, budget, extra_env=cfg.get("env"), one_per_process=cfg.get("one_per_process", False), stall_s=cfg.get("stall_s"))
        for c in crashes:
            c["legs"] = list(legs)
    if tb_legs:
        n2 = args.runs if (args.runs and args.legs) else (tb or {"runs": {tier: total}})["runs"][tier]
        b2 = (tb or {"budget": {tier: budget}})["budget"][tier]
        r2, c2, t2 = run_batch(TB_BIN[0] or binpath, scratch, prop, tier, seed0, n2, tb_legs, b2, extra_env=cfg.get("env"), one_per_process=True, stall_s=240)
        for c in c2:
            c["legs"] = tb_legs
        results += r2
        crashes += c2
        timed_out = timed_out or t2
        legs = legs + tb_legs
    wall_runs = time.time() - t0
    known = [] if args.ignore_known else load_known()

    # ---- classify every violation EVENT ------------------------------------
    groups = collections.OrderedDict()  # (leg, class) -> list of (result, violation)
    known_hits = collections.Counter()
    for r in results:
        for v in r.get("violations", []):
            k = match_known(known, prop, r.get("leg", ""), v)
            if k is not None:
                known_hits[k["id"]] += 1
                continue
            groups.setdefault((r.get("leg", ""), v["class"]), []).append((r, v))
    harness_races = []
    for c in crashes:
        v = {"class": "process-crash", "msg": first_panic_line(c["stderr"]), "detail": {"panic": first_panic_line(c["stderr"])}}
        if "WARNING: DATA RACE" in c["stderr"]:
            rep = c["stderr"][c["stderr"].index("WARNING: DATA RACE"):]
            repo_frames = [l.strip() for l in rep.splitlines() if "brendoncarroll.net/p2p" in l and "/zsimrt/" not in l]
            # the racing ACCESSES are the first frame after each "Read at / Write at / Previous ..." line:
            # a race whose accesses are all in harness code is the harness's, whatever is further up the stacks
            lines_ = rep.splitlines()
            tops = [lines_[i + 1].strip() for i, l in enumerate(lines_[:-1]) if (" at 0x" in l and " by " in l and ("ead at" in l or "rite at" in l))]
            if tops and all(("verifsim/" in t_ or "/zsimrt" in t_) for t_ in tops):
                repo_frames = []
            if not repo_frames:
                # a race between harness goroutines only: our bug, never a violation
                harness_races.append((c["leg"], c["seed"], rep[:3000]))
                continue
            funcs = sorted({l.split("(")[0].strip() for l in repo_frames if "." in l and not l.startswith("/")})[:6]
            v = {"class": "data-race", "msg": "the race detector reports a data race involving " + ", ".join(funcs), "detail": {"functions": funcs, "report": rep[:6000]}}
        k = match_known(known, prop, c["leg"], v)
        if k is not None:
            known_hits[k["id"]] += 1
            continue
        groups.setdefault((c["leg"], v["class"]), []).append(({"k": c["k"], "seed": c["seed"], "leg": c["leg"], "crash": c}, v))

    # ---- replay + minimise one representative per unmatched group ------------
    out_replays = []
    nondeterministic = []
    missing = []
    rdir = os.path.join(scratch, "replays")
    keepdir = os.path.join(VERIF, "replays") if build.REPO.rstrip("/") == "/repo" else os.environ.get("VERIF_REPLAYS", "/tmp/verif-exp-replays")
    os.makedirs(keepdir, exist_ok=True)
    min_budget = {"quick": 45, "thorough": 300}[tier]
    for (leg, cls), items in groups.items():
        items.sort(key=lambda it: it[0].get("ndecisions", 1 << 30))
        r, v = items[0]
        src = os.path.join(rdir, "%s-%s-%d.json" % (prop, safe_name(leg), r["k"]))
        if os.path.exists(src):
            rf = json.load(open(src))
        elif "crash" in r:
            # regenerate the decision list by replaying the seed in generation mode is not
            # possible after a crash; replay by seed instead
            rf = {"prop": prop, "leg": leg, "seed": r["seed"], "tier": tier, "decisions": [], "by_seed": True, "k": r["k"], "seed0": seed0, "legs": r["crash"].get("legs") or legs}
        else:
            # a violation without its replay file must never be dropped silently
            missing.append((leg, cls, r.get("seed")))
            continue
        rf["violation"] = v
        rf.pop("result", None)
        dst = os.path.join(keepdir, "%s-%s-%s-seed%d.json" % (prop, safe_name(leg), cls, r["seed"]))
        if rf.get("by_seed"):
            rf["note"] = "process crashed; reproduce with: SIM_MODE=batch SIM_SEED0=%d SIM_FIRST=%d SIM_COUNT=1" % (seed0, r["k"])
            rf["stderr"] = r["crash"]["stderr"][-4000:]
            json.dump(rf, open(dst, "w"))
            out_replays.append((leg, cls, dst, v, len(items)))
            continue
        res2, crashed2, err2, dec2 = replay_once(binpath, scratch, rf)
        if cls not in classes_of(res2, crashed2, err2):
            if is_tierb(leg):
                # Tier B (third-party goroutines on the real clock): the workload replays, the interleaving
                # does not. The violation was observed by a data-only oracle; report it with its replay
                # agreement instead of pretending the simulator is at fault.
                agree = 0
                for _ in range(4):
                    res2, crashed2, err2, dec2 = replay_once(binpath, scratch, rf)
                    if cls in classes_of(res2, crashed2, err2):
                        agree += 1
                rf["tier_b_replay_agreement"] = "%d/5" % agree
                rf["note"] = "Tier B leg: the decision list replays the workload; the violation recurred in %d of 5 replays" % agree
                json.dump(rf, open(dst, "w"))
                out_replays.append((leg, cls, dst, v, len(items)))
                continue
            nondeterministic.append((leg, cls, r["seed"]))
            json.dump(rf, open(dst + ".nonrepro", "w"))
            continue
        ntries = 0
        if not args.no_min and cfg.get("minimise", True):
            rf, ntries = minimise(binpath, scratch, rf, cls, min_budget)
        res3, crashed3, err3, dec3 = replay_once(binpath, scratch, rf, want_log=True)
        if res3 is not None:
            vs = [x for x in res3.get("violations", []) if x["class"] == cls and match_known(KNOWN_CTX["known"], prop, leg, x) is None]
            if vs:
                rf["violation"] = vs[0]
            rf["log_tail"] = (res3.get("log") or [])[-120:]
            rf["cfg"] = res3.get("cfg")
        rf["minimise_tries"] = ntries
        json.dump(rf, open(dst, "w"))
        out_replays.append((leg, cls, dst, rf["violation"], len(items)))

    # ---- evidence -------------------------------------------------------------
    wall = time.time() - t0
    write_evidence(prop, cfg, tier, seed0, results, crashes, known_hits, out_replays, wall, wall_runs, timed_out, legs)

    for kid, n in sorted(known_hits.items()):
        k = [x for x in known if x["id"] == kid][0]
        log("KNOWN-FINDING: property=%s %s (%s; hit in %d events)" % (prop, k["what"], kid, n))
    if harness_races:
        for leg, seed, rep in harness_races:
            log("INFRA-ERROR: data race between harness goroutines only (leg %s, seed %s):\n%s" % (leg, seed, rep))
        return 2
    if missing:
        for leg, cls, seed in missing:
            log("INFRA-ERROR: violation class %s (leg %s, seed %s) was reported by a run but its replay file is missing" % (cls, leg, seed))
        return 2
    if nondeterministic:
        for leg, cls, seed in nondeterministic:
            log("INFRA-ERROR: violation class %s (leg %s, seed %d) did not reproduce on replay: the simulator is not deterministic here" % (cls, leg, seed))
        return 2
    if out_replays:
        for leg, cls, dst, v, n in out_replays:
            log("violation class=%s leg=%s runs=%d: %s" % (cls, leg, n, (v.get("msg") or "")[:300]))
            log("VIOLATION property=%s replay=%s" % (prop, dst))
        return 1
    if not results:
        log("INFRA-ERROR: no runs completed")
        return 2
    if timed_out:
        log("note: wall-clock budget reached; %d of %d runs completed" % (len(results), total))
    log("OK property=%s tier=%s runs=%d wall=%.1fs" % (prop, tier, len(results), wall))
    return 0


def safe_name(s):
    return "".join(c if (c.isalnum() and c.isascii()) or c in "-." else "_" for c in s)


def first_panic_line(err):
    for line in err.splitlines():
        if line.startswith("panic:") or line.startswith("fatal error:"):
            return line[:300]
    return (err.strip().splitlines() or ["crash"])[-1][:300]


def write_evidence(prop, cfg, tier, seed0, results, crashes, known_hits, out_replays, wall, wall_runs, timed_out, legs):
    faults, probes = collections.Counter(), collections.Counter()
    hashes = set()
    bigrams = set()
    sim_ms = steps = checks = 0
    per_leg = collections.Counter()
    clean_runs = 0
    samples = []
    for r in results:
        for k, v in (r.get("faults") or {}).items():
            faults[k] += v
        for k, v in (r.get("probes") or {}).items():
            probes[k] += v
        if r.get("nontrivial"):
            hashes.add((r.get("leg"), r.get("trace_hash")))
        for b in r.get("bigrams") or []:
            bigrams.add(b)
        sim_ms += r.get("sim_ms", 0)
        steps += r.get("steps", 0)
        checks += r.get("checks", 0)
        per_leg[r.get("leg", "")] += 1
        if not r.get("violations"):
            clean_runs += 1
        if len(samples) < 3 and r.get("sample") and r.get("nontrivial"):
            samples.append({"leg": r.get("leg"), "seed": r.get("seed"), "cfg": r.get("cfg"), "trace": r.get("sample")})
    if not samples:
        for r in results[:2]:
            samples.append({"leg": r.get("leg"), "seed": r.get("seed"), "cfg": r.get("cfg"), "trace": r.get("sample")})
    n = len(results)
    ev = {
        "property_id": prop,
        "tier": tier,
        "seed": seed0,
        "level": "exploration",
        "coverage": {
            "evaluations": n,
            "distinct_nontrivial": len(hashes),
            "rule": cfg["rule"],
            "samples": samples or [{"note": "no run completed"}],
            "runs_per_leg": dict(per_leg),
            "runs_per_hour": int(n / max(wall_runs, 1e-3) * 3600),
            "simulated_seconds": round(sim_ms / 1000.0, 3),
            "scheduler_steps": steps,
            "oracle_comparisons": checks,
            "faults_fired": dict(faults),
            "probes": dict(probes),
            "distinct_context_switch_bigrams": len(bigrams),
            "distinct_decision_traces_nontrivial": len(hashes),
            "runs_without_any_violation": clean_runs,
            "known_findings_hit": dict(known_hits),
            "process_crashes": len(crashes),
            "wall_budget_reached": bool(timed_out),
            "legs": legs,
            "components": cfg.get("components", {}),
            "tree": build.tree_fingerprint(),
            "replays_written": [os.path.relpath(x[2], VERIF) for x in out_replays],
        },
        "assumptions": cfg.get("assumptions", []),
        "wall_s": round(wall, 2),
        "violations": len(out_replays),
    }
    if build.REPO.rstrip("/") != "/repo":
        # an experiment against another tree (VERIF_REPO): never overwrite the evidence of /repo
        d = os.environ.get("VERIF_EVIDENCE", "/tmp/verif-exp-evidence")
        os.makedirs(d, exist_ok=True)
        with open(os.path.join(d, prop + ".json"), "w") as f:
            json.dump(ev, f, indent=1, sort_keys=True)
        return
    os.makedirs(os.path.join(VERIF, "evidence"), exist_ok=True)
    with open(os.path.join(VERIF, "evidence", prop + ".json"), "w") as f:
        json.dump(ev, f, indent=1, sort_keys=True)
    if tier == "thorough":
        # the quick tier rewrites evidence/<ID>.json on every change; keep the last thorough run beside it
        os.makedirs(os.path.join(VERIF, "evidence", "thorough"), exist_ok=True)
        with open(os.path.join(VERIF, "evidence", "thorough", prop + ".json"), "w") as f:
            json.dump(ev, f, indent=1, sort_keys=True)


if __name__ == "__main__":
    sys.exit(main())
