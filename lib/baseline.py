#!/usr/bin/env python3
"""Run the repository's pinned test suite (guard off: plain /repo, stock toolchain)
and compare with /root/.vp/BASELINE.json. Exit 0 iff every stable test passes.
Tests that do not pass in the full parallel run are re-run on their own up to two
more times (the suite has load-sensitive tests with 3 s deadlines, see the flaky
list in BASELINE.json); a test counts as passing if any attempt passes."""
import json, os, re, subprocess, sys
base = json.load(open("/root/.vp/BASELINE.json"))
REPO = os.environ.get("VERIF_REPO", "/repo")
env = dict(os.environ, GOFLAGS="-mod=mod", GOPROXY="off", GOSUMDB="off", GOTOOLCHAIN="local")


def run(args):
    p = subprocess.run(["go", "test", "-mod=mod", "-json", "-vet=off", "-count=1", "-timeout", "25m"] + args, cwd=REPO, env=env, stdout=subprocess.PIPE, stderr=subprocess.STDOUT)
    st = {}
    for line in p.stdout.decode("utf-8", "replace").splitlines():
        try:
            d = json.loads(line)
        except ValueError:
            continue
        if d.get("Test") and d.get("Action") in ("pass", "fail", "skip"):
            st["%s::%s" % (d["Package"], d["Test"])] = d["Action"]
    return st


status = run(["./..."])
bad = [t for t in base["stable_pass"] if status.get(t) != "pass"]
for attempt in range(2):
    if not bad:
        break
    pkgs = {}
    for t in bad:
        pkg, name = t.split("::")
        pkgs.setdefault(pkg, set()).add(name.split("/")[0])
    for pkg, names in pkgs.items():
        rel = "./" + pkg.split("go.brendoncarroll.net/p2p/", 1)[-1] if "/p2p/" in pkg else "."
        st = run(["-run", "^(%s)$" % "|".join(sorted(re.escape(n) for n in names)), rel])
        for k, v in st.items():
            if v == "pass":
                status[k] = "pass"
    bad = [t for t in base["stable_pass"] if status.get(t) != "pass"]
print("baseline: %d stable tests, %d passing, %d not passing" % (len(base["stable_pass"]), len(base["stable_pass"]) - len(bad), len(bad)))
for t in bad:
    print("  NOT PASSING:", t, status.get(t))
sys.exit(1 if bad else 0)
