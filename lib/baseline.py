#!/usr/bin/env python3
"""Run the repository's pinned test suite (guard off: plain /repo, stock toolchain)
and compare with /root/.vp/BASELINE.json. Exit 0 iff every stable test passes."""
import json, os, subprocess, sys
base = json.load(open("/root/.vp/BASELINE.json"))
env = dict(os.environ, GOFLAGS="-mod=mod", GOPROXY="off", GOSUMDB="off", GOTOOLCHAIN="local")
p = subprocess.run(["go", "test", "-mod=mod", "-json", "-vet=off", "-count=1", "-timeout", "25m", "./..."], cwd=os.environ.get("VERIF_REPO", "/repo"), env=env, stdout=subprocess.PIPE, stderr=subprocess.STDOUT)
status = {}
for line in p.stdout.decode("utf-8", "replace").splitlines():
    try:
        d = json.loads(line)
    except ValueError:
        continue
    if d.get("Test") and d.get("Action") in ("pass", "fail", "skip"):
        status["%s::%s" % (d["Package"], d["Test"])] = d["Action"]
bad = [t for t in base["stable_pass"] if status.get(t) != "pass"]
print("baseline: %d stable tests, %d passing, %d not passing" % (len(base["stable_pass"]), len(base["stable_pass"]) - len(bad), len(bad)))
for t in bad:
    print("  NOT PASSING:", t, status.get(t))
sys.exit(1 if bad else 0)
