#!/bin/sh
# usage: seed_confirm.sh <dir with patch.diff and demo files> <seeded-id> <package dir of the demo, e.g. p/mbapp> <go test -run pattern> [demo file ...]
# Confirms an independently written property-breaking change in a scratch worktree of /repo (never in /repo itself):
#   demo passes on the unchanged tree, the patch applies and builds, the demo fails with it, the whole existing suite still passes.
# On success copies patch and demo to /verif/seeded/<id>/ and prints a summary line. The worktree is removed in every case.
SRC=$1; ID=$2; PKG=$3; PAT=$4; shift 4
export GOFLAGS=-mod=mod GOPROXY=off GOSUMDB=off GOTOOLCHAIN=local
WT=/tmp/cf-$ID
git -C /repo worktree remove --force $WT >/dev/null 2>&1
git -C /repo worktree add --detach $WT HEAD -q || exit 2
trap 'git -C /repo worktree remove --force $WT >/dev/null 2>&1' EXIT
DEMOS="$*"
[ -z "$DEMOS" ] && DEMOS=$(cd $SRC && ls *_test.go 2>/dev/null)
mkdir -p $WT/$PKG; for d in $DEMOS; do cp $SRC/$d $WT/$PKG/ || exit 2; done
cd $WT
run_demo() { go test $DEMOFLAGS -vet=off -count=1 -run "$PAT" ./$PKG/ >/tmp/cf-$ID.demo.log 2>&1; }
run_demo; r0=$?
if [ $r0 -ne 0 ]; then run_demo; r0=$?; fi
git apply $SRC/patch.diff || { echo "SEED $ID: patch does not apply"; exit 1; }
go build ./... || { echo "SEED $ID: does not build"; exit 1; }
run_demo; r1=$?
cp /tmp/cf-$ID.demo.log /tmp/cf-$ID.demo.fail.log
for d in $DEMOS; do rm -f $WT/$PKG/$d; done
go test -vet=off -count=1 ./... >/tmp/cf-$ID.suite.log 2>&1; rs=$?
if [ $rs -ne 0 ]; then
  # the pinned suite has timing-sensitive tests: re-run the failing packages alone, twice at most
  for try in 1 2; do
    bad=$(grep -E '^(FAIL|---)?\s*FAIL\s+go\.brendoncarroll' /tmp/cf-$ID.suite.log | awk '{print $2}' | sed 's#go.brendoncarroll.net/p2p#.#' | sort -u)
    [ -z "$bad" ] && break
    go test -vet=off -count=1 $bad >/tmp/cf-$ID.suite.log 2>&1; rs=$?
    [ $rs -eq 0 ] && break
  done
fi
echo "SEED $ID: demo-without-change rc=$r0 (want 0)  demo-with-change rc=$r1 (want non-zero)  suite-with-change rc=$rs (want 0)"
if [ $r0 -eq 0 ] && [ $r1 -ne 0 ] && [ $rs -eq 0 ]; then
  mkdir -p /verif/seeded/$ID
  cp $SRC/patch.diff /verif/seeded/$ID/
  for d in $DEMOS; do cp $SRC/$d /verif/seeded/$ID/; done
  [ -f $SRC/notes.md ] && cp $SRC/notes.md /verif/seeded/$ID/author-notes.md
  tail -15 /tmp/cf-$ID.demo.fail.log > /verif/seeded/$ID/demo-failure-excerpt.txt
  echo "SEED $ID: CONFIRMED"
else
  echo "SEED $ID: NOT CONFIRMED"; tail -5 /tmp/cf-$ID.suite.log
  exit 1
fi
