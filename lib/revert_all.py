#!/usr/bin/env python3
"""Sensitivity by reverting repairs: for every status=fixed entry of known_findings.json reverse-apply
exactly that commit to /repo's working tree, run the quick tier of the entry's property, restore the
tree, and record whether the entry's violation class was reported again.
Writes /verif/sensitivity/reverts.md.  usage: revert_all.py [id ...]"""
import json, os, re, subprocess, sys, time

VERIF = os.path.dirname(os.path.dirname(os.path.abspath(__file__)))
REPO = "/repo"
# entries whose symptom needs a second repair reverted as well, and per-entry check arguments
ALSO = {"H40": ["0181c74"], "H50": ["0f986f5"]}  # H50's path is shut by H51 (Close now closes the connections)
ARGS = {"H51": ["--legs", "ssh", "--runs", "32"], "H54": ["--legs", "ssh", "--runs", "48"], "H21": ["--legs", "udp", "--runs", "48"], "H49": ["--legs", "quic/mem", "--runs", "48"], "H50": ["--legs", "ssh", "--runs", "96"], "H18": ["--legs", "ssh", "--runs", "96"], "H23": ["--legs", "race:kad", "--runs", "48"],
        "H46": ["--legs", "p2pke/mem,mbapp/mem,mem", "--runs", "1500"], "H47": ["--legs", "multi/mem+sim", "--runs", "1500"]}


def sh(cmd, **kw):
    return subprocess.run(cmd, shell=True, capture_output=True, text=True, **kw)


def main():
    want = set(sys.argv[1:])
    k = json.load(open(os.path.join(VERIF, "known_findings.json")))
    rows = []
    if sh("git -C %s status --porcelain" % REPO).stdout.strip():
        print("repo dirty"); return 2
    for f in k["findings"]:
        if f.get("status") != "fixed" or (want and f["id"] not in want):
            continue
        commits = [f["commit"]] + ALSO.get(f["id"], [])
        ok = True
        for c in commits:
            r = sh("git -C %s diff %s^ %s | git -C %s apply -R" % (REPO, c, c, REPO))
            if r.returncode != 0:
                # later repairs touch the same lines: try a three-way reverse
                r = sh("git -C %s diff %s^ %s | git -C %s apply -R --3way" % (REPO, c, c, REPO))
                if r.returncode != 0:
                    ok = False
        if not ok:
            sh("git -C %s checkout -- . ; git -C %s reset -q" % (REPO, REPO))
            rows.append((f["id"], f["property"], f["commit"], f["class"], "not reverse-applicable (later repairs changed the same lines)", 0))
            print(rows[-1]); continue
        sh("git -C %s reset -q" % REPO)
        build = sh("cd %s && GOFLAGS=-mod=mod GOPROXY=off GOSUMDB=off GOTOOLCHAIN=local go build ./..." % REPO)
        if build.returncode != 0:
            sh("git -C %s checkout -- ." % REPO)
            rows.append((f["id"], f["property"], f["commit"], f["class"], "reverted tree does not build", 0))
            print(rows[-1]); continue
        ev = os.path.join(VERIF, "evidence", f["property"] + ".json")
        keep = open(ev).read() if os.path.exists(ev) else None
        t0 = time.time()
        args = " ".join(ARGS.get(f["id"], []))
        r = sh("cd %s && ./check %s --no-min %s" % (VERIF, f["property"], args))
        dt = time.time() - t0
        sh("git -C %s checkout -- ." % REPO)
        if keep is not None:
            open(ev, "w").write(keep)
        out = r.stdout + r.stderr
        hit = [l for l in out.splitlines() if l.startswith("violation class=%s " % f["class"])]
        others = sorted({m.group(1) for m in re.finditer(r"^violation class=(\S+)", out, re.M)} - {f["class"]})
        infra = "INFRA-ERROR" in out
        if hit:
            m = re.search(r"runs=(\d+)", hit[0])
            res = "reported again (class %s, %s runs)" % (f["class"], m.group(1) if m else "?")
        elif others:
            res = "reported as another class: " + ", ".join(others[:3])
        elif infra:
            res = "INFRA-ERROR"
        else:
            res = "NOT reported"
        rows.append((f["id"], f["property"], "+".join(commits), f["class"], res, dt))
        print(rows[-1], flush=True)
    os.makedirs(os.path.join(VERIF, "sensitivity"), exist_ok=True)
    with open(os.path.join(VERIF, "sensitivity", "reverts.md"), "w") as fo:
        fo.write("# Sensitivity: every repair reverted on its own\n\nProduced by `lib/revert_all.py` with the machinery of this commit: the repair's commit is reverse-applied to /repo's working tree, "
                 "the quick tier of the finding's property runs, the tree is restored.\n\n| finding | property | commit(s) reverted | class | quick tier | wall s |\n|---|---|---|---|---|---|\n")
        for r in rows:
            fo.write("| %s | %s | %s | %s | %s | %.0f |\n" % r)
    bad = [r for r in rows if not r[4].startswith("reported")]
    print("%d reverted, %d not reported" % (len(rows), len(bad)))
    return 0


if __name__ == "__main__":
    sys.exit(main())
