#!/bin/sh
# usage: record_fixed.sh <fix-commit> <check-id> <finding-id> <class> [check args]
# reverse-applies the fix, runs the check with minimisation, keeps the replay of <class> as findings/fixed/<finding-id>.json
C=$1; ID=$2; FID=$3; CLS=$4; shift 4
cd /repo || exit 2
if [ -n "$(git status --porcelain)" ]; then echo "repo dirty"; exit 2; fi
python3 -c "
import glob,os
for f in glob.glob('/verif/replays/*'): os.remove(f)"
git diff "$C^" "$C" | git apply -R || { git checkout -- .; exit 2; }
(cd /verif && ./check $ID "$@" >/dev/null 2>&1)
git checkout -- .
F=$(ls /verif/replays/$ID-*-$CLS-*.json 2>/dev/null | head -1)
if [ -z "$F" ]; then echo "no replay of class $CLS"; ls /verif/replays; exit 1; fi
cp "$F" /verif/findings/fixed/$FID.json && echo "recorded $FID from $F"
