#!/usr/bin/env python3
"""Development aid: replay a file with the full event log and print the lines
around the step of its first violation.
usage: dbg.py <PROP> <replay.json> [before] [after] [grep-regex]"""
import json, os, re, shutil, sys
HERE = os.path.dirname(os.path.abspath(__file__))
sys.path.insert(0, HERE)
import build, driver
from props import PROPS

prop, path = sys.argv[1], sys.argv[2]
before = int(sys.argv[3]) if len(sys.argv) > 3 else 60
after = int(sys.argv[4]) if len(sys.argv) > 4 else 10
pat = re.compile(sys.argv[5]) if len(sys.argv) > 5 else None
cfg = PROPS[prop]
s = build.new_scratch("dbg")
try:
    build.prepare(s, instrument=cfg.get("instrument", True))
    b = os.path.join(s, cfg["pkg"] + ".test")
    build.build_test(s, cfg["pkg"], b)
    driver.EXTRA_ENV.update(cfg.get("env") or {})
    rf = json.load(open(path))
    res, crashed, err, dec = driver.replay_once(b, s, rf, want_log=True, timeout=900)
    if res is None:
        print("no result", err[-3000:])
        sys.exit(1)
    for v in res.get("violations", []):
        print("VIOLATION step=%s %s: %s" % (v.get("step"), v["class"], v["msg"][:300]))
    step = res["violations"][0]["step"] if res.get("violations") else 10**9
    print("cfg:", res.get("cfg"))
    for line in res.get("log") or []:
        m = re.match(r"\s*(\d+) ", line)
        n = int(m.group(1)) if m else -1
        if step - before <= n <= step + after and (pat is None or pat.search(line)):
            print(line[:200])
finally:
    shutil.rmtree(s, ignore_errors=True)
