"""Per-property configuration of the checks (what to build, how many runs)."""

TIER_A = {
    "real": ["all packages of /repo named in the property (instrumented copy of the working tree)", "flynn/noise", "protobuf", "errgroup", "context"],
    "stub": ["goroutine scheduler (parking scheduler over synctest)", "clock (synctest fake clock)", "select order and map iteration order (runtime overlay)", "crypto/rand (seeded ChaCha8)", "network / transport (harness)"],
    "tier": "A (trace-deterministic)",
}

PROPS = {
    "C13": {
        "pkg": "c13",
        "legs": ["tellhub", "askhub", "queue"],
        "runs": {"quick": 6000, "thorough": 400000},
        "budget": {"quick": 150, "thorough": 1500},
        "rule": "one run = one seed = one schedule of 1-3 producers, 1-4 receivers, cancellers and an optional closer on one real TellHub/AskHub/Queue; "
                "every channel operation and lock in hubs.go/queue.go is a scheduling point and the seeded scheduler picks who runs; "
                "non-trivial = at least one message was handed over and at least one step had several runnable tasks (plus, for fault-free runs, more than one hand-over); "
                "distinct = distinct scheduler decision traces (hash of the sequence of (task, site) steps)",
        "components": TIER_A,
        "level_text": "seeded exploration of schedules of concurrent deliver/receive/cancel/close on the real hubs and queue under a deterministic scheduler; every history is checked against the rendezvous specification (hubs) and a bounded-FIFO model (queue). Sampling, not enumeration: a clean batch is evidence, not proof.",
        "level_note": "trusted: the instrumenter (adds yields only), the synctest bubble, the runtime overlay (select order, map order), the oracle in sim/c13; interleavings are explored at channel operations, locks and Once.Do",
        "assumptions": ["interleavings are explored at channel operations, locks and Once.Do, not inside straight-line code",
                        "the instrumenter only adds calls; the scratch copy is rebuilt from /repo's working tree on every run"],
    },
}

SEQ = {
    "real": ["p/p2pke Session (and everything it calls: flynn/noise, x509, protobuf, replay filter)"],
    "stub": ["transport, clock (the `now` argument) and adversary are the harness", "crypto/rand (seeded ChaCha8 via testing/cryptotest)"],
    "tier": "A (trace-deterministic, single-threaded: sessions have no goroutines)",
}

PROPS["C06"] = {
    "pkg": "sess", "engine": "seqsim", "env": {"SIM_PROP": "C06"},
    "legs": ["random", "random", "random", "sweep"],
    "runs": {"quick": 40000, "thorough": 2400000},
    "budget": {"quick": 150, "thorough": 1800},
    "rule": "one run = one schedule of deliver/drop/duplicate/reorder/reflect/retransmit/send actions over the genuine messages of one honest real Session pair, followed by the fair suffix; "
            "leg random draws up to 40 actions from the seed, leg sweep enumerates every action sequence over a 9-letter alphabet by length (run index = sequence number; depth 4 complete in quick, depth 6 in thorough); "
            "non-trivial = at least two actions before the suffix; distinct = distinct event traces (hash of the per-action log)",
    "components": SEQ,
    "level_text": "seeded and depth-bounded-enumerated exploration of message schedules over the real Session state machine with per-action invariants (no panic, no regression, idempotent Handshake, errors change nothing) and a bounded-liveness check after a fair suffix (both ready within 2 rounds, data flows both ways). Sampling beyond the enumerated depth.",
    "level_note": "trusted: the harness transport and oracle (sim/sess), seeded crypto/rand; cryptographic primitives are assumed sound",
    "assumptions": ["only genuine messages of the pair are delivered (adversarial bytes belong to C02/C03/C08)", "the clock stands still within one run (expiry is exercised in C02/C07)"],
}

NOT_APPLICABLE = {
    "C17": "pure functions of their input (key/peer-id marshal, parse, equality, fingerprint): no schedule, clock, fault or second party for a simulator to vary; see DESIGN.md §7",
}
PENDING = "check not built yet in this session (see DESIGN.md §11 build order); not claimed"
