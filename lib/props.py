"""Per-property configuration of the checks (what to build, how many runs)."""

TIER_A = {
    "real": ["all packages of /repo named in the property (instrumented copy of the working tree)", "flynn/noise", "protobuf", "errgroup", "context"],
    "stub": ["goroutine scheduler (parking scheduler over synctest)", "clock (synctest fake clock)", "select order and map iteration order (runtime overlay)", "crypto/rand (seeded ChaCha8)", "network / transport (harness)"],
    "tier": "A (trace-deterministic)",
}

PROPS = {
    "C13": {
        "pkg": "c13", "env": {"SIM_PROP": "C13"},
        "tierb": {"pkg": "stk", "legs": ["udp", "ssh", "quic/mem", "p2pke/udp", "quic/udp"], "runs": {"quick": 80, "thorough": 1500}, "budget": {"quick": 240, "thorough": 700}},
        "legs": ["tellhub", "askhub", "queue"],
        "runs": {"quick": 20000, "thorough": 400000},
        "budget": {"quick": 150, "thorough": 700},
        "rule": "one run = one seed = one schedule of 1-3 producers, 1-4 receivers, cancellers and an optional closer on one real TellHub/AskHub/Queue; "
                "every channel operation and lock in hubs.go/queue.go is a scheduling point and the seeded scheduler picks who runs; "
                "non-trivial = at least one message was handed over and at least one step had several runnable tasks (plus, for fault-free runs, more than one hand-over); "
                "distinct = distinct scheduler decision traces (hash of the sequence of (task, site) steps)",
        "components": TIER_A,
        "level_text": "seeded exploration of schedules of concurrent deliver/receive/cancel/close on the real hubs and queue under a deterministic scheduler; every history is checked against the rendezvous specification (hubs) and a bounded-FIFO model (queue). Sampling, not enumeration: a clean batch is evidence, not proof.",
        "level_note": "trusted: the instrumenter (adds yields only), the synctest bubble, the runtime overlay (select order, map order), the oracle in sim/c13; interleavings are explored at channel operations, locks and Once.Do",
        "assumptions": ["Tier B legs (udp, ssh, quic/mem, p2pke/udp, quic/udp; real clock, real loopback sockets): a Receive or ServeAsk blocked on a node without traffic is cancelled and must return the context's error within 3 seconds",
                        "interleavings are explored at channel operations, locks and Once.Do, not inside straight-line code",
                        "the instrumenter only adds calls; the scratch copy is rebuilt from /repo's working tree on every run"],
    },
}

SEQ = {
    "real": ["p/p2pke Session (and everything it calls: flynn/noise, x509, protobuf, replay filter)"],
    "stub": ["transport, clock (the `now` argument) and adversary are the harness", "crypto/rand (seeded ChaCha8 via testing/cryptotest)"],
    "tier": "A (trace-deterministic, single-threaded: sessions have no goroutines)",
}

PROPS["C06"] = {
    "pkg": "sess", "engine": "seqsim", "env": {"SIM_PROP": "C06"},
    "legs": ["random", "random", "random", "sweep"],
    "runs": {"quick": 40000, "thorough": 2400000},
    "budget": {"quick": 150, "thorough": 700},
    "rule": "one run = one schedule of deliver/drop/duplicate/reorder/reflect/retransmit/send actions over the genuine messages of one honest real Session pair, followed by the fair suffix; "
            "leg random draws up to 40 actions from the seed, leg sweep enumerates every action sequence over a 9-letter alphabet by length (run index = sequence number; depth 4 complete in quick, depth 6 in thorough); "
            "non-trivial = at least two actions before the suffix; distinct = distinct event traces (hash of the per-action log)",
    "components": SEQ,
    "level_text": "seeded and depth-bounded-enumerated exploration of message schedules over the real Session state machine with per-action invariants (no panic, no regression, idempotent Handshake, errors change nothing) and a bounded-liveness check after a fair suffix (both ready within 2 rounds, data flows both ways). Sampling beyond the enumerated depth.",
    "level_note": "trusted: the harness transport and oracle (sim/sess), seeded crypto/rand; cryptographic primitives are assumed sound",
    "assumptions": ["only genuine messages of the pair are delivered (adversarial bytes belong to C02/C03/C08)", "the clock stands still within one run (expiry is exercised in C02/C07)"],
}

PROPS["C02"] = {
    "pkg": "sess", "engine": "seqsim", "env": {"SIM_PROP": "C02"},
    "legs": ["passive", "passive", "passive", "active", "active", "chan-replay", "chan-restart", "chan-sess-concurrent"],
    "runs": {"quick": 8000, "thorough": 400000},
    "budget": {"quick": 220, "thorough": 700},
    "rule": "session legs (passive, active): one run = one adversary schedule (10-80 actions) over 2-4 real Session pairs (A-B pairs incl. role swaps, unrelated C-D): deliver/drop/reorder/replay/cross-feed/reflect any byte string ever emitted, 8 kinds of mutation, clock jumps across expiry; leg active adds the protocol-speaking attacker of C03; "
            "channel legs (chan-replay, chan-restart): one run = two real p2pke.Channels under the parking scheduler with 1-3 concurrent senders per side over several rekey periods (and a restart of one side), on a network that loses, duplicates, reorders and corrupts, with a replayer re-injecting any datagram ever sent (to its destination, reflected to its sender, or after its session was rotated out); leg chan-sess-concurrent: 2-4 tasks call Send concurrently on ONE established Session (interleaved at every atomic operation), oracle: counters unique, each message decrypts to its own plaintext once; "
            "non-trivial = at least one fault fired and at least one session became ready / one plaintext was delivered; distinct = distinct event traces",
    "components": {"real": ["p/p2pke Session and Channel incl. timers (all of it), f/x509, flynn/noise, x/crypto primitives"], "stub": ["wire and adversary (harness)", "clock (`now` arguments in the session legs; synctest fake clock in the channel legs)", "goroutine scheduler (channel legs)", "crypto/rand (seeded ChaCha8)"], "tier": "A"},
    "level_text": "seeded exploration of adversary action sequences against real Sessions and real Channels; oracles after every delivery (authentic: given to Send by the holder of the key the receiver reports, from the dynamically paired peer session, at most once per session / per channel object, unmodified) and over all emitted bytes at the end (counter uniqueness per session, no plaintext on the wire, sender buffers untouched)",
    "level_note": "trusted: harness transport/adversary/oracle (sim/sess, sim/chn), seeded crypto/rand; AEAD, X25519, Ed25519 assumed sound; key identity approximated by session identity for counter uniqueness",
    "assumptions": [],
}
PROPS["C03"] = {
    "pkg": "sess", "engine": "seqsim", "env": {"SIM_PROP": "C03"},
    "legs": ["active"],
    "runs": {"quick": 30000, "thorough": 600000},
    "budget": {"quick": 150, "thorough": 700},
    "rule": "as C02 leg active: in addition an attacker with its own key speaks the wire protocol through its own noise state in both roles: honest, stolen (replayed) timestamp claim, victim key with attacker signature, wrong-purpose signature, garbage, stolen channel-binding signature from another handshake, early data, data under attacker keys; "
            "after every action every honest session that is usable (IsReady, returned application data, or Send succeeded) must report a remote key whose owner demonstrably took part in this very handshake (mutual acceptance of genuine handshake messages, or the attacker's own key); non-trivial/distinct as C02",
    "components": SEQ,
    "level_text": "seeded exploration of active-attacker behaviours against real Sessions with a provenance oracle (who produced the handshake messages a session accepted, who consumed its own) evaluated after every single delivered message",
    "level_note": "trusted: the attacker repertoire is finite (not a Dolev-Yao closure); provenance is tracked at message granularity; primitives assumed sound",
    "assumptions": ["attacker holds only its own private key"],
}

KAD = {
    "real": ["p/kademlia Cache, distance functions, DHTNode, DHTFindNode/DHTJoin/DHTGet/DHTPut"],
    "stub": ["clock (`now` arguments; synctest fake clock for DHTNode)", "the network between DHT nodes (the Ask callbacks are the harness: loss, crashed nodes, adversarial responders)", "map iteration order (runtime overlay)"],
    "tier": "A (trace-deterministic, single-threaded)",
}
PROPS["C18"] = {
    "pkg": "kad", "engine": "seqsim", "env": {"SIM_PROP": "C18"}, "legs": ["history"],
    "runs": {"quick": 20000, "thorough": 1500000}, "budget": {"quick": 150, "thorough": 700},
    "rule": "one run = one generated history (5-125 operations: put, update, delete, expire, get/contains, enumeration) against one real Cache under a simulated clock (equal timestamps, steps, jumps, 10% of runs all-zero times); "
            "locus length 1,2,4,32 bytes, every accepted (capacity, per-bucket minimum) shape incl. the smallest capacity the constructor accepts and 0; keys biased to share 0..all leading bits with the locus; "
            "non-trivial = at least one eviction or expiry happened; distinct = distinct operation traces",
    "components": KAD,
    "level_text": "seeded exploration of operation histories against a reference map with a relational eviction rule stated from the property (victim in the farthest non-protected bucket), checked after every operation",
    "level_note": "trusted: the reference model and oracle in sim/kad; no concurrency leg: the cache's operations are atomic under its mutex at the granularity the simulator schedules, so a concurrent leg could not fail (races are C14's job)",
    "assumptions": ["time is the only environment of this property; no network or crash fault applies"],
}
PROPS["C19"] = {
    "pkg": "kad", "engine": "seqsim", "env": {"SIM_PROP": "C19"}, "legs": ["history"],
    "runs": {"quick": 20000, "thorough": 1500000}, "budget": {"quick": 150, "thorough": 700},
    "rule": "the cache states reached by C18-style histories; after every mutation two generated query keys (sharing 0..all leading bits with the locus and with entries) are checked: ForEach visits every entry once in non-decreasing XOR distance, Closest is a true minimum, ForEachCloser yields all and only the nearer entries, ForEachMatching all and only the prefix matches, against a brute-force big-endian XOR comparison; "
            "non-trivial = an order check over at least two entries took place; distinct = distinct traces",
    "components": KAD,
    "level_text": "invariant checking on simulated cache states with an independent brute-force distance oracle",
    "level_note": "the algebraic laws of the distance comparison on arbitrary byte triples are a pure function and are not decided here (DESIGN.md §7)",
    "assumptions": ["query keys have the length of the locus (shorter keys compare on the common prefix only, where any order of ties is accepted)"],
}
PROPS["C20"] = {
    "pkg": "kad", "engine": "seqsim", "env": {"SIM_PROP": "C20"}, "legs": ["honest", "adversarial", "adversarial"],
    "runs": {"quick": 16000, "thorough": 300000}, "budget": {"quick": 150, "thorough": 700},
    "rule": "one run = one simulated network of 3-30 (thorough: up to 200) real DHTNodes with random or dense ids, random links, then 3-14 operations (find node, join, put, get, crash/restart, churn) from random origins with 0..N initial peers; the Ask callbacks are the network: per-call loss, crashed nodes, and (leg adversarial) 1-3 responders returning self/asker/target, cyclic and duplicated lists, 10^4-entry lists, fabricated ever-closer ids; "
            "non-trivial = some operation made more than one ask; distinct = distinct traces",
    "components": KAD,
    "level_text": "seeded exploration of topologies, initial-peer sets, faults and adversarial responder behaviours with a whole-network oracle: each id asked at most once, asks bounded by ids mentioned (cut at 10x as non-termination), closest/value/accepted/error truthful",
    "level_note": "'contacted' = the operation invoked its ask callback for the node; closest is checked against the nearest contacted node that responded (get) / accepted (put), the lenient reading",
    "assumptions": ["adversaries fabricate at most 40 ids per operation"],
}

STACKS = ["sim", "mem", "frag/sim", "frag/mem", "mbapp/sim", "mbapp/mem",
          "mux-string/sim", "mux-varint/mem", "mux-u16/sim", "mux-u32/mem", "mux-u64/sim",
          "askmux-string/mem", "askmux-varint/mbapp/sim", "multi/mem+sim", "multi/mbapp/mem+mbapp/sim",
          "map/sim", "map/frag/mem", "wl/mbapp/sim", "wl/mem",
          "p2pke/sim", "p2pke/mem", "frag/p2pke/sim", "mux-string/frag/p2pke/sim", "mbapp/p2pke/sim",
          "frag/frag/sim", "mbapp/frag/mem", "mux-varint/mux-string/sim"]

PROPS["C01"] = {
    "tierb": {"legs": ["quic/mem", "udp", "ssh", "p2pke/udp", "quic/udp"], "runs": {"quick": 80, "thorough": 1500}, "budget": {"quick": 240, "thorough": 700}},
    "pkg": "stk", "env": {"SIM_PROP": "C01"}, "legs": STACKS,
    "runs": {"quick": 2700, "thorough": 200000}, "budget": {"quick": 200, "thorough": 700},
    "rule": "one run = one seed = one stack of the catalogue (27 stacks: every swarm implementation except QUIC/SSH/UDP and nestings up to depth 4, over the simulated network and over the real in-memory swarm) on 2-4 nodes with 1-3 concurrent senders and receivers per node, ledger payloads of boundary-biased lengths 0..MTU, random IOVec splits, buffers poisoned after Tell; network drop/duplicate/reorder (corruption only beneath P2PKE) and all task interleavings drawn from the seed; "
            "non-trivial = at least one delivery was checked, at least one fault fired and several tasks were runnable at once; distinct = distinct scheduler decision traces",
    "components": TIER_A,
    "level_text": "seeded exploration of schedules and network faults over real swarm stacks; every delivered message is compared with a ledger of everything told (exact bytes, right node, sender's and receiver's addresses), sender buffers are checked when Tell returns",
    "level_note": "trusted: instrumenter, scheduler, simulated network, ledger oracle; QUIC, SSH and UDP stacks are not in this leg",
    "assumptions": ["payload bodies are random, not adversarially chosen per layer", "duplicates are not flagged (the statement forbids wrong content and attribution, not repetition)"],
}

PROPS["C09"] = {
    "tierb": {"legs": ["quic/mem", "udp", "ssh", "p2pke/udp", "quic/udp"], "runs": {"quick": 80, "thorough": 1500}, "budget": {"quick": 240, "thorough": 700}},
    "pkg": "stk", "env": {"SIM_PROP": "C09"}, "legs": STACKS,
    "runs": {"quick": 2700, "thorough": 150000}, "budget": {"quick": 200, "thorough": 700},
    "rule": "one run = one stack of the catalogue on two nodes over a fault-free network with ample queues, per-run inner MTU (32..1280, small ones forcing up to 255 fragments), logical MTU, worker count and multiplexer channel id (empty/short/130-byte strings, 0, small and maximal integers); 3-8 Tell/Ask operations, one at a time, with lengths 0, 1, MTU-1, MTU, MTU+1, MTU+k and each layer's fragment-size boundaries; "
            "non-trivial = at least one within-MTU operation arrived and at least one above-MTU operation was tried; distinct = distinct scheduler decision traces",
    "components": TIER_A,
    "level_text": "seeded exploration of (stack, MTU configuration, channel id, length) with all task interleavings; oracle: within MTU never the MTU error and (nil error) arrives complete, above MTU always the MTU error and nothing delivered",
    "level_note": "trusted: instrumenter, scheduler, simulated network, ledger oracle; absence of delivery is attributable because the network is fault-free, queues are ample and operations are issued one at a time",
    "assumptions": ["the 16-bit part-count boundary of the message-box swarm (over a million bytes over a tiny transport) is not reached"],
}

ASK_STACKS = ["mem", "mbapp/sim", "mbapp/mem", "askmux-string/mem", "askmux-varint/mbapp/sim",
              "multi/mbapp/mem+mbapp/sim", "wl/mbapp/sim", "wl/mem", "mbapp/p2pke/sim", "mbapp/frag/mem"]

PROPS["C11"] = {
    "tierb": {"legs": ["quic/mem", "ssh", "quic/udp"], "runs": {"quick": 48, "thorough": 900}, "budget": {"quick": 240, "thorough": 700}},
    "pkg": "stk", "env": {"SIM_PROP": "C11"}, "legs": ASK_STACKS,
    "runs": {"quick": 2000, "thorough": 150000}, "budget": {"quick": 200, "thorough": 700},
    "rule": "one run = one ask-capable stack (10 stacks: in-memory, message-box over simulated network / in-memory / fragmenting / P2PKE, ask-multiplexers, multi-transport, whitelisted) on 2-4 nodes with 1-4 concurrent askers and 1-3 servers per node; unique requests, handlers produce a unique response per (request, server, invocation); negative returns, too-small buffers, response sizes around buffer size and MTU, context deadlines 2 s..3 min of simulated time, a destination closed at a random step; loss/duplication/reordering of request and multi-part response datagrams; "
            "non-trivial = at least one ask returned exactly its handler's answer, at least one fault fired, several tasks runnable at once; distinct = distinct scheduler decision traces",
    "components": TIER_A,
    "level_text": "seeded exploration of schedules and faults; every returned Ask is compared with the ledger of what its own handler invocations produced (exact bytes; error required after negative return / closed destination / too-small buffer); at every quiescent point an Ask past its deadline must have returned",
    "level_note": "trusted: instrumenter, scheduler, simulated network, ask ledger; SSH asks are not exercised, QUIC asks only in the Tier B leg",
    "assumptions": ["'within the context's deadline' = returned by the first quiescent point at or after the deadline"],
}

PROPS["C12"] = {
    "tierb": {"legs": ["quic/mem", "udp", "ssh", "p2pke/udp", "quic/udp"], "runs": {"quick": 80, "thorough": 1500}, "budget": {"quick": 240, "thorough": 700}},
    "pkg": "stk", "env": {"SIM_PROP": "C12"}, "legs": [x for x in STACKS if x != "sim"],
    "runs": {"quick": 8000, "thorough": 300000}, "budget": {"quick": 240, "thorough": 700},
    "rule": "one run = one stack of the catalogue (26 stacks) on 2-4 nodes: 0-3 tasks blocked in Receive and 0-3 in ServeAsk of a victim node with contexts that never expire, optional tells/asks in flight towards it, 1-2 closer tasks (sometimes closing twice, sometimes concurrently) at a seeded step, then new Receive/ServeAsk calls on the closed swarm; finally every node is closed; network faults and all task interleavings from the seed; "
            "non-trivial = at least one call was blocked when Close was called and several tasks were runnable at once; distinct = distinct scheduler decision traces",
    "components": TIER_A,
    "level_text": "seeded exploration of Close timing against blocked and late calls; oracle at the first quiescent point after Close returned plus one simulated second: every call has returned a non-nil error, no callback ran on a task that was still waiting when Close returned, the run quiesces (no spinning); after closing every node: no task started by the stack is alive and no library code runs during a further simulated minute",
    "level_note": "trusted: instrumenter, scheduler, the task-state snapshot taken at the quiescent point right after Close returned; the goroutine-release clause is not applied to multiplexer stacks (the mux core belongs to the inner swarm, which a muxed swarm's Close does not close)",
    "assumptions": ["'promptly' = by the first quiescent point after Close returned plus one simulated second"],
}

PROPS["C10"] = {
    "pkg": "stk", "env": {"SIM_PROP": "C10"},
    "legs": ["frag/sim", "mbapp/sim", "frag/frag/sim", "wl/mbapp/sim", "askmux-varint/mbapp/sim", "map/frag/sim", "mux-string/frag/sim", "frag/sim", "mbapp/sim"],
    "runs": {"quick": 8000, "thorough": 120000}, "budget": {"quick": 240, "thorough": 700},
    "rule": "one run = the fragmenting swarm or the message-box swarm (and nestings) receiving from 2-4 sources, each with 1-3 concurrent senders of 1-4 messages of 0-13 fragments; the simulator is the inner transport: per-fragment loss, duplication, arbitrary delivery order across messages and sources, clock advances of up to 61 s between deliveries so that partial reassembly state is garbage-collected and re-created; inner MTU 40-200, workers 1-4; "
            "inner datagrams are attributed to ledger messages by content to measure reach (reassembled out of order / with duplicate fragments / incomplete never delivered); non-trivial = a multi-fragment message was reassembled and a fault fired; distinct = distinct scheduler decision traces",
    "components": TIER_A,
    "level_text": "seeded exploration of fragment schedules and worker interleavings; every payload delivered by the fragmenting layer must be byte-identical to a ledger payload told to that node by the source it is attributed to (bodies are random, so a mixture, a truncation or a message with a missing fragment cannot match)",
    "level_note": "trusted: instrumenter, scheduler, simulated network, ledger oracle",
    "assumptions": ["honest senders only (adversarial fragments belong to C08)"],
}

PROPS["C15"] = {
    "pkg": "stk", "env": {"SIM_PROP": "C15"},
    "legs": ["string/tell/sim", "string/ask/mem", "string/ask/mbapp-sim", "varint/tell/sim", "varint/ask/mem", "u16/tell/sim", "u16/ask/mem", "u32/tell/mem", "u32/ask/mem", "u64/tell/sim", "u64/ask/mbapp-sim", "string/tell/mem", "varint/tell/frag-sim"],
    "runs": {"quick": 10000, "thorough": 150000}, "budget": {"quick": 200, "thorough": 700},
    "rule": "one run = one multiplexer kind (string, varint, 16/32/64-bit; tell, ask and secure variants) on 2-3 nodes with 2-5 simultaneously open channels drawn from extremes (empty string, 127/128-byte strings, strings that are prefixes of each other or look like length prefixes, 0, maximal integers, integers whose encodings are prefixes of others), some channels open on one node only; concurrent tells and asks on every channel, payloads include empty ones and ones that start like a header; "
            "non-trivial = something was delivered or served, more than one channel, several tasks runnable; distinct = distinct scheduler decision traces",
    "components": TIER_A,
    "level_text": "seeded exploration of channel sets, traffic and interleavings; a callback of the swarm opened for channel c must only see ledger messages told/asked on channel c with the exact payload; frames captured at the simulated transport: distinct (channel, payload) must give distinct bytes",
    "level_note": "the universal statement 'framing is a prefix-free injection for every identifier and payload' is a pure function of its input; here it is checked only on the traffic the runs generate (DESIGN.md §7)",
    "assumptions": ["short payloads (under 12 bytes) cannot carry their channel: they are attributed to any channel on which an equal payload was told"],
}

ADDR_STACKS = STACKS + ["mapudp/sim", "mapssh/sim", "p2pke/mapudp/sim", "frag/p2pke/mapudp/sim", "mux-string/p2pke/mapudp/sim", "mapudp/frag/mem", "multi/mem+mapudp/sim", "multi/mapssh/mem+p2pke/mapudp/sim",
                        "mapudp/sim", "mapssh/sim", "p2pke/mapudp/sim",
                        "p2pke/mapssh/sim", "p2pke/p2pke/sim", "frag/p2pke/mapssh/sim", "multi/mem+p2pke/mapssh/sim"]
PROPS["C16"] = {
    "tierb": {"legs": ["udp", "udp6", "ssh", "quic/udp", "p2pke/udp", "quic/mem"], "runs": {"quick": 96, "thorough": 1800}, "budget": {"quick": 240, "thorough": 700}},
    "pkg": "stk", "env": {"SIM_PROP": "C16"}, "legs": ADDR_STACKS,
    "runs": {"quick": 1900, "thorough": 100000}, "budget": {"quick": 200, "thorough": 700},
    "rule": "one run = one stack (the 27 catalogue stacks plus 8 whose addresses have the UDP form ip:port and the SSH form fingerprint@ip:port, produced by the address-mapping swarm with udpswarm's and sshswarm's own address types and parsers, alone and nested under P2PKE, fragmenting, multiplexing and multi-transport swarms); per-run hosts are IPv4, IPv6 and IPv4-mapped IPv6 with ports 1..65535, keys and hence fingerprints/peer ids come from the seed; "
            "every address observed (LocalAddrs of every node, the address every node uses for every other, Src and Dst of every delivered tell and ask) is marshalled and parsed back with the swarm that handed it out and with every other node's swarm; "
            "non-trivial = more than two addresses round-tripped and traffic was delivered; distinct = distinct scheduler decision traces",
    "components": TIER_A,
    "level_text": "invariant on the addresses produced during simulated runs: ParseAddr(MarshalText(a)) marshals back to the same text",
    "level_note": "'parsing arbitrary text fails cleanly or canonicalises' is pure input generation and is not decided here (DESIGN.md §7); real UDP/TCP sockets are not used: the UDP and SSH address forms are produced through mapswarm",
    "assumptions": ["equality of addresses is judged on their marshalled text"],
}

CHN = {
    "real": ["p/p2pke Channel, Session, Timer (instrumented), flynn/noise, x509"],
    "stub": ["transport (simulated datagram network owned by the scheduler)", "clock and timers (synctest fake clock)", "goroutine scheduler", "crypto/rand (seeded)"],
    "tier": "A (trace-deterministic)",
}
PROPS["C07"] = {
    "pkg": "chn", "env": {"SIM_PROP": "C07"}, "legs": ["heal", "heal", "restart", "steady"],
    "runs": {"quick": 8000, "thorough": 150000}, "budget": {"quick": 240, "thorough": 700},
    "rule": "one run = two real Channels with per-run timers (handshake backoff 50-250 ms, keep-alive 1-3 s, rekey 1-8 s, reject 2-24 s) over the simulated network; leg heal: 1-2 pending Sends per side with seeded relative timing, an adversarial prefix over the first 1-8 channel messages (drop, duplicate, reorder, delay across timer firings), then prompt in-order loss-free delivery; leg restart: the peer is replaced by a fresh Channel with the same key after 0-5 delivered handshake messages; leg steady: an established channel under two-way traffic every keep-alive/3 for 3-7 rekey periods; "
            "non-trivial = a Send completed and (heal/restart) a fault fired; distinct = distinct scheduler decision traces",
    "components": CHN,
    "level_text": "seeded exploration of prefix schedules, timer interleavings and restart points with a bounded-liveness oracle evaluated at quiescent points only after faults have stopped: every pending Send returns nil within 8 handshake-backoff intervals of the transport becoming reliable; messages sent on the reliable transport arrive; under steady traffic no Send fails and the number of InitHellos is at most what the rekey period explains",
    "level_note": "the bound (8 intervals) is a parameter of the check stated in DESIGN.md §5.1, not derived from the code; no oracle demands progress while faults are still being injected",
    "assumptions": ["'reliable' = every datagram is delivered in order before simulated time advances"],
}

PROPS["C05"] = {
    "pkg": "chn", "env": {"SIM_PROP": "C05"}, "legs": ["predicates", "predicates", "foreign"],
    "runs": {"quick": 6000, "thorough": 150000}, "budget": {"quick": 240, "thorough": 700},
    "rule": "one run = two real Channels with per-run acceptance predicates (accept all / none / only the peer's key / all but the peer's key) and short timers (rekey 1-4 s), both sides sending from the start (simultaneous initiation) or one only, repeated Sends across rekeys, WaitReady; leg foreign adds a third real Channel with another key that handshakes with A while receiving copies of everything A sends, before or after A and B are established; network drop/duplicate/reorder and all interleavings from the seed; "
            "non-trivial = several acceptance checks were evaluated and several tasks were runnable at once; distinct = distinct scheduler decision traces",
    "components": CHN,
    "level_text": "seeded exploration with invariants evaluated at every Send return, WaitReady return and Deliver result: the channel's RemoteKey() is non-zero and satisfies its predicate whenever the channel is usable, once set it never changes for one channel object, a side that rejects its only peer never has a remote key; afterwards on a reliable network the legitimate pair still exchanges data",
    "level_note": "trusted: instrumenter, scheduler, simulated network; under accept-all the first key to complete a handshake legitimately owns the channel, so the 'pair still works' clause is applied only when B was established first or A admits B alone",
    "assumptions": [],
}

PROPS["C04"] = {
    "tierb": {"legs": ["quic/mem", "quic/udp", "p2pke/udp"], "runs": {"quick": 48, "thorough": 900}, "budget": {"quick": 240, "thorough": 700}},
    "pkg": "stk", "env": {"SIM_PROP": "C04"},
    "legs": ["p2pke/sim", "p2pke/mem", "frag/p2pke/sim", "mbapp/p2pke/sim", "mux-string/frag/p2pke/sim", "wl/mbapp/p2pke/sim", "p2pke/mapudp/sim", "p2pke/sim", "wl/mem", "wl/mbapp/mem"],
    "runs": {"quick": 1600, "thorough": 100000}, "budget": {"quick": 240, "thorough": 700},
    "rule": "one run = one P2PKE-secured stack (bare, under fragmenting / message-box / multiplexer / whitelist layers, over the simulated network, the in-memory swarm and UDP-form addresses) on 3-4 nodes with keys from the seed; a random whitelist relation between identities; tells and asks to the right address and to wrong-identity addresses (right transport address, another node's or nobody's peer id); a packet-level adversary that replays, cross-feeds, reflects, bit-flips and re-injects with a spoofed transport source every datagram it has seen; network drop/duplicate/reorder/corrupt and all interleavings; "
            "non-trivial = a key lookup inside a handler was checked and a fault fired; distinct = distinct scheduler decision traces",
    "components": TIER_A,
    "level_text": "seeded exploration; in every Receive/ServeAsk callback the ledger says who really sent the message: Src must be the sender's advertised address (its fingerprint), LookupPublicKey(Src) with a cancelled context must return the sender's key without panicking, the receiver's whitelist must admit the sender, and a message told to an identity nobody at that transport address holds must reach no callback",
    "level_note": "the QUIC swarm is exercised by the Tier B leg only, SSH not at all; the adversary holds no private key of an honest node",
    "assumptions": [],
}

PROPS["C08"] = {
    "tierb": {"legs": ["ssh", "quic/udp", "p2pke/udp"], "runs": {"quick": 48, "thorough": 1200}, "budget": {"quick": 240, "thorough": 700}},
    "pkg": "stk", "env": {"SIM_PROP": "C08"},
    "legs": ["frag/sim", "mbapp/sim", "mux-string/sim", "mux-varint/sim", "mux-u16/sim", "mux-u32/sim", "mux-u64/sim", "askmux-string/mbapp/sim", "askmux-varint/mbapp/sim",
             "multi/mem+sim", "multi/mbapp/mem+mbapp/sim", "p2pke/sim", "frag/p2pke/sim", "mbapp/p2pke/sim", "wl/mbapp/sim", "map/frag/sim", "frag/frag/sim", "mbapp/frag/sim", "frag/mem", "mbapp/mem", "mux-string/mem",
             "session", "dht", "frag/sim", "mbapp/sim", "mux-string/sim"],
    "runs": {"quick": 2600, "thorough": 200000}, "budget": {"quick": 240, "thorough": 700},
    "rule": "one run = one packet-facing layer (fragmenting swarm, message-box swarm incl. ask path, the five multiplexers incl. ask multiplexers, multi-transport, P2PKE swarm/channel, nestings; leg session: real P2PKE Sessions under the byte- and protocol-level adversary of C02/C03; leg dht: DHT handlers and caches) with honest traffic and an adversary at the transport that knows nothing of the formats: random bytes, and mutations of genuine packets captured in the same run (bit flips, truncation at every length, extension, boundary integers written at or inserted before any offset incl. maximal/overlong uvarints, spliced prefixes), mostly re-injected with the genuine packet's source and destination so that they contradict the genuine siblings already in the reassembly state; clock advances across the GC timers; "
            "non-trivial = a fault was injected and honest traffic was delivered; distinct = distinct scheduler decision traces",
    "components": TIER_A,
    "level_text": "seeded exploration; oracle: the process survives (worker processes report the seed before each run; a worker that dies is attributed to that seed and the run is reproduced by seed) and afterwards, on a fault-free network, a valid message is still delivered",
    "level_note": "pure text parsers (address and key parsing of attacker-chosen strings) are reached only through what the runs produce; the raw QUIC frame reader is Tier B and not in this leg",
    "assumptions": [],
}

PROPS["C14"] = {
    "pkg": "racep", "race": True, "minimise": False, "one_per_process": True, "stall_s": 300,
    "env": {"GORACE": "halt_on_error=1 exitcode=66"},
    "legs": ["race:mem", "race:frag/mem", "race:mbapp/mem", "race:mux-string/mem", "race:askmux-string/mem", "race:p2pke/mem", "race:mbapp/p2pke/mem", "race:frag/p2pke/mem", "race:wl/mbapp/mem",
             "race:map/frag/mem", "race:kad", "race:hubs", "race:channel", "race:udp", "race:ssh", "race:quic/mem", "race:quic/udp",
             "own:frag/sim", "own:mbapp/sim", "own:mem", "own:mbapp/mem", "own:p2pke/sim", "own:mux-varint/mux-string/sim", "own:mbapp/p2pke/sim"],
    "runs": {"quick": 384, "thorough": 20000}, "budget": {"quick": 420, "thorough": 700},
    "rule": "legs race:<stack>: one run = one seeded workload in which free-running goroutines (8 procs, Go race detector on, real clock: mutexes held across blocking hand-overs would stall a fake clock) call Tell, Ask, Receive, ServeAsk, LookupPublicKey, PublicKey, LocalAddrs, MTU and Close (twice, while traffic flows) concurrently on every node of a stack over the real in-memory swarm (and of the UDP, SSH and QUIC swarms on loopback sockets / in-memory); callbacks checksum their message on entry and exit and write to it; legs race:kad / race:hubs / race:channel do the same for the Kademlia cache and DHT node, the hubs and queue, and a pair of P2PKE channels across rekeys; "
            "legs own:<stack>: the scheduled (replayable) C01 workload, keeping the buffer-ownership classes; non-trivial = something was delivered; distinct = distinct (stack, seed, deliveries) or scheduler decision traces",
    "components": {"real": ["every package of /repo (uninstrumented behaviour: all scheduler hooks are no-ops in the race legs)"], "stub": ["clock: real for race:<stack>, synctest fake clock for race:kad/hubs/channel and the own legs", "transport: the real in-memory swarm", "workload seeded; goroutine scheduling is NOT controlled in the race legs"], "tier": "race legs: not replayable exactly (seed + report); own legs: A"},
    "level_text": "the Go race detector (no false positives) over seeded high-contention workloads that use every API of the statement concurrently; plus payload checksums at callback entry and exit under both the real and the simulated scheduler",
    "level_note": "the serialising scheduler would hide every race from the detector, so the race legs deliberately run free; a report reproduces usually, not always, by re-running its seed; a race with harness frames only is reported as infrastructure error, never as a violation",
    "assumptions": ["a race whose two accesses are both in third-party code (quic-go, x/crypto) is not attributed to the library"],
}

TIERB_RULE = (" Tier B legs (own batch, one run per process, 16 quick / 300 thorough runs per leg; which legs: see coverage.legs): quic/mem = the QUIC swarm (real quic-go, TLS 1.3 with the node keys; "
              "its timer wrapper patched in a scratch copy of the module, see DESIGN.md 12.8) over the real in-memory swarm; udp, ssh = the UDP and SSH swarms on real loopback sockets; p2pke/udp, quic/udp = P2PKE and QUIC over the UDP swarm; 2-3 nodes, real clock, no scheduler: a seeded workload of 6-19 operations issued one at a time "
              "(Tell / Ask of sizes 0, small, MTU/2, MTU-1, MTU, MTU+1..40; bursts of 2-3 overlapping asks with lingering handlers; negative handler results; too-small buffers; Tell to another identity at a node's transport address; LookupPublicKey; Close of one node followed by Receive/ServeAsk on it) "
              "with per-run whitelist (QUIC, P2PKE) and seeded datagram loss in a third of the in-memory runs; data-only oracles of this property (content, attribution and key lookup in the handler, whitelist, size refusals with a control message, answer identity, calls after Close); "
              "what replays is the application-level history, not the packet trace")
for _p in PROPS.values():
    if _p.get("tierb"):
        _p["rule"] = _p["rule"] + ";" + TIERB_RULE
        _c = dict(_p["components"])
        _c["real"] = list(_c.get("real", [])) + ["Tier B legs: s/quicswarm, p/p2pconn, quic-go v0.37.4 (one function patched), crypto/tls, s/memswarm + s/vswarm, s/udpswarm and s/sshswarm on loopback sockets, x/crypto/ssh, s/p2pkeswarm"]
        _c["stub"] = list(_c.get("stub", [])) + ["Tier B legs: crypto/rand (seeded), datagram loss on the in-memory swarm (seeded, keyed by link and ordinal); scheduling, clock and loopback sockets are REAL"]
        _c["tier"] = str(_c.get("tier", "A")) + "; Tier B legs: B (outcome-deterministic)"
        _p["components"] = _c
        _p["assumptions"] = [a for a in _p.get("assumptions", []) if "QUIC" not in a] + ["the QUIC, SSH and UDP-socket swarms are exercised by the Tier B legs only (real clock, real loopback sockets, sequential workload)"]

NOT_APPLICABLE = {
    "C17": "pure functions of their input (key/peer-id marshal, parse, equality, fingerprint): no schedule, clock, fault or second party for a simulator to vary; see DESIGN.md §7",
}
PENDING = "check not built yet in this session (see DESIGN.md §11 build order); not claimed"
