#!/usr/bin/env python3
"""summarise out-*.jsonl of a kept scratch dir by leg"""
import sys, json, glob, collections
d = sys.argv[1]
by = collections.defaultdict(lambda: collections.Counter())
for f in glob.glob(d + "/out-*.jsonl"):
    for line in open(f):
        try:
            x = json.loads(line)
        except ValueError:
            continue
        if "result" not in x:
            continue
        r = x["result"]
        c = by[r.get("leg")]
        c["runs"] += 1
        c["steps"] += r.get("steps", 0)
        for k, v in (r.get("probes") or {}).items():
            c["p:" + k] += v
        for v in r.get("violations") or []:
            c["V:" + v["class"]] += 1
for leg in sorted(by):
    c = by[leg]
    keys = [k for k in c if k not in ("runs", "steps", "p:multi-runnable-steps")]
    print("%-32s runs=%d steps=%d " % (leg, c["runs"], c["steps"]) + " ".join("%s=%d" % (k[2:] if k[1] == ":" and k[0] == "p" else k, c[k]) for k in sorted(keys)))
