#!/bin/sh
# usage: revert_check.sh <fix-commit> <check-id> [check args] — reverse-applies one fix: commit in /repo's
# working tree, runs the check (which must now report the defect), restores the tree.
C=$1; ID=$2; shift 2
cd /repo || exit 2
if [ -n "$(git status --porcelain)" ]; then echo "repo dirty"; exit 2; fi
git diff "$C^" "$C" | git apply -R || { git checkout -- .; exit 2; }
(cd /verif && ./check $ID "$@" 2>&1 | grep -E "^(violation|VIOLATION|OK|KNOWN|INFRA)" | head -8)
git checkout -- .
