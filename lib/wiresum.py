#!/usr/bin/env python3
"""Development aid: condensed wire history of a channel-world replay. usage: wiresum.py <PROP> <replay.json>"""
import sys, re, subprocess, collections
p = subprocess.run(["python3", "/verif/lib/dbg.py", sys.argv[1], sys.argv[2], "100000", "10000000", "WIRE|restart|harness/prefix|healed"], capture_output=True, text=True)
ev = collections.OrderedDict()
for l in p.stdout.splitlines():
    if l.startswith("VIOLATION") or l.startswith("cfg"):
        print(l[:260]); continue
    m = re.search(r'WIRE (\w) (emits|got) counter=(\d+).*id=(\w+)(.*)', l)
    if not m:
        continue
    t = l.split(' ')[1]
    key = (m.group(1), m.group(2), m.group(3), m.group(4), m.group(5).strip()[:30])
    if key not in ev:
        ev[key] = [t, t, 0]
    ev[key][1] = t
    ev[key][2] += 1
for k, v in list(ev.items())[:int(sys.argv[3]) if len(sys.argv) > 3 else 60]:
    print(v[0], '..', v[1], 'x%d' % v[2], *k)
