#!/usr/bin/env python3
"""Writes /verif/seeded/<id>/meta.json from eval.txt, the confirmation protocol and the table below
(what each independently written change needs in order to manifest; what, if anything, had to be strengthened)."""
import json, os, re, glob
NEEDS = {
 "C01-m1": ("fragswarm reassembly keyed by destination instead of source", "two senders with multi-part messages of equal id and part count in flight to one receiver, fragments interleaved", ""),
 "C01-m2": ("mbapp bitMap.allSet accepts a tail byte with any bit set", "part count with n%8 in 2..7 and, above 8 parts, a particular arrival order", ""),
 "C01-m3": ("fragswarm stores the inner swarm's receive buffer instead of a copy", "multi-part message over an inner swarm that recycles receive buffers, more receptions than queue buffers before completion", ""),
 "C02-m1": ("Session.Send allocates its counter with Load+Store instead of an atomic add", "two goroutines in Session.Send on ONE Session interleaved between the load and the store (Channel serialises Sends, so only direct Session users)", "missed at first (the session simulation is sequential); leg chan-sess-concurrent added"),
 "C02-m2": ("the first data packet a session accepts is not entered into the replay window", "a replay of exactly the first accepted packet of a session", ""),
 "C02-m3": ("responder accepts data after InitHello, before InitDone", "an active attacker splicing a victim's identity claim into its own handshake and skipping InitDone", ""),
 "C03-m1": ("responder accepts data before InitDone (cipherIn != nil)", "attacker-made InitHello carrying a stolen claim, then data, no InitDone", ""),
 "C03-m2": ("responder may Send one handshake step early", "Session.Send called on a responder between InitHello and InitDone", ""),
 "C03-m3": ("signatures cover only length and purpose, not the transcript", "a signature obtained in one handshake reused in another (either role)", ""),
 "C04-m1": ("Session.canReceive true before InitDone", "a protocol-speaking peer with its own transport address replaying an honest node's identity claim and sending data without a valid InitDone", "missed at first (C04 had only a packet-level adversary; payloads unknown to the ledger were left to C01); protocol-speaking attacker and class attacker-message-delivered added"),
 "C04-m2": ("getFullAddr fast path returns an established channel without comparing identities", "a channel for the transport address already established with another identity", ""),
 "C04-m3": ("whitelist consulted before Channel.Deliver, with the key known before the packet", "locally initiated channel to a blacklisted peer whose first data completes the handshake (RespDone lost or late)", ""),
 "C05-m1": ("checkKey falls through to the predicate when the bound key differs", "predicate accepting two keys, an established session, a later handshake by the other accepted key", ""),
 "C05-m2": ("rejected prospective session stays in its slot", "initiator whose predicate rejects the responder's key; responder then sends data", ""),
 "C05-m3": ("rejection in onReadySession logged, not returned", "initiator with rejecting predicate, RespDone lost or behind the responder's first data", ""),
 "C06-m1": ("nonce skip lost when the initiator completes through application data", "RespDone dropped, responder data reaches the initiator in state 2, initiator then sends", "detected, but the sweep leg's violations did not replay (enumeration index was not in the choice stream): INFRA-ERROR instead of VIOLATION; corrected (Stream.Fixed)"),
 "C06-m2": ("responder stops answering InitDone once it has sent data", "RespDone and the responder's first data both lost, then a retransmitted InitDone", "as C06-m1"),
 "C06-m3": ("writeHandshake as table lookup panics for a responder in state 0", "Handshake() on a responder before any InitHello arrived", ""),
 "C07-m1": ("Timer.Reset ignored while the timer is pending", "initiator whose session expired for idleness, RekeyAfterTime well above KeepAliveTimeout", ""),
 "C07-m2": ("ready sessions no longer emit handshake output", "exactly the final handshake message lost, responder silent", ""),
 "C07-m3": ("established responder session that never received data answers every InitHello with its stale RespDone", "initiator that only called WaitReady (never sent data) restarts or rekeys", "missed at first: the message ping-pong hit the step cap, the run ended without judgement and was counted as held; class message-storm added (and WaitReady-only / one-way traffic variants)"),
 "C08-m1": ("mbapp part index checked against the packet's own part count", "a later fragment of a group contradicting the first fragment's part count", ""),
 "C08-m2": ("fragswarm header parser accepts a negative uvarint length", "a header varint overflowing 64 bits", ""),
 "C08-m3": ("InitHello length trailer bound off by two", "trailer equal to len-1 or len of the first (unauthenticated) handshake message", ""),
 "C09-m1": ("fragswarm MTU cap precedence slip", "small inner MTU, payload in the top 3810 bytes below MTU()", ""),
 "C09-m2": ("p2pmux caches the header size as the number of IOVec buffers", "channel header longer than one byte, payload within header-1 bytes of MTU()", ""),
 "C09-m3": ("quicswarm readFrame rejects frames of exactly the limit", "an Ask of exactly MTU() bytes on a QUIC swarm", "missed at first: quicswarm ran in no check; the Tier B leg quic/mem was built (real quic-go on the real clock, sequential seeded workload) and reports it through a control-message rule"),
 "C10-m1": ("fragswarm completion by countdown (duplicates count)", "a duplicated fragment before the last distinct one arrives", ""),
 "C10-m2": ("mbapp bitMap tail mask zero for multiples of 8", "part count 8, 16, 24, ... with one of the last 8 parts missing", ""),
 "C10-m3": ("fragswarm reassembly keyed by destination", "two sources, equal message id and part count, interleaved", ""),
 "C11-m1": ("mbapp serves ask requests on a new goroutine (request buffer is the worker's reused buffer)", "fast path (single-part) and two messages in flight to one server", ""),
 "C11-m2": ("p2pmux serveLoop returns 0 instead of -1 when the ask hub is closed", "ask parked on a channel nobody serves yet, that muxed swarm closed meanwhile", "missed at first (every node always had a server); runs with an unserved closing node added"),
 "C11-m3": ("mbapp forwards uint8(-n) as error code", "handler result a negative multiple of 256", "missed at first (handlers only returned -1); menu of negative values added"),
 "C12-m1": ("Queue.Close does not wait for loaned buffers", "Close while a callback runs, a peer still sending, Receive after Close", ""),
 "C12-m2": ("TellHub.Deliver ignores close", "message in the hub with no Receive blocked at Close (multiswarm, mux)", ""),
 "C12-m3": ("AskHub.CloseWithError sets the error after closing the channel", "ServeAsk woken by close running before the closer's next statement (a data race as well)", "missed by C12 and C13 at first: the instrumenter had no scheduling point AFTER close(ch); added, and C12 got the class success-without-message. C14's race legs reported it from the start"),
 "C13-m1": ("TellHub.Receive fast path closes done before the callback ran", "a deliverer already parked on the rendezvous channel when Receive is entered", ""),
 "C13-m2": ("AskHub.Deliver abandons a committed request when the hub closes", "hub closed while an ask handler is mid-request", ""),
 "C13-m3": ("Queue.Receive drops a dequeued message when its context is already cancelled", "receiver cancelled at the moment a message is available (both select cases ready)", ""),
 "C14-m1": ("TellHub.Deliver returns on close while the callback still runs", "hub closed during a callback, inner swarm recycles buffers, more deliveries before the callback returns", ""),
 "C14-m2": ("fragswarm keeps the inner swarm's lent buffer", "multi-fragment message over a buffer-recycling inner swarm with other deliveries in between", ""),
 "C14-m3": ("Channel.Send calls Session.Send under the read lock", "two goroutines sending on one channel (plain read of the counter races with the atomic add)", ""),
 "C15-m1": ("string mux header buffer one byte short for names of 128 bytes and more", "channel name of at least 128 bytes; misdelivery needs two such names differing in the last byte and a payload starting with that byte", "missed at first (longest names in the pool were 127/128 bytes of one letter, no payload started with a name's last byte); long name pairs and matching payload prefixes added"),
 "C15-m2": ("uint16 demux rejects frames with an empty payload", "uint16 mux and an empty payload; misdelivery needs the ask path", "missed at first (asks always carried the 12-byte ledger header); empty Asks with a per-channel oracle added"),
 "C15-m3": ("mux hands tells to the hub from a new goroutine (payload is the inner swarm's buffer)", "no receiver waiting on the channel and another message arriving first", ""),
 "C16-m1": ("udpswarm parser unmaps IPv4-mapped addresses", "an IPv4-mapped IPv6 address", ""),
 "C16-m2": ("sshswarm address pattern loses '+'", "a key fingerprint containing '+'", ""),
 "C16-m3": ("p2pkeswarm.ParseAddr requires exactly one '@'", "a layer beneath P2PKE whose address text contains '@' (SSH form, or P2PKE over P2PKE)", "missed at first (no such nesting in the address stacks); p2pke/mapssh, p2pke/p2pke and two more nestings added"),
 "C18-m1": ("bucket minimum expiry not recomputed after delete", "delete the earliest-expiring entry, put a later one, expire in between", ""),
 "C18-m2": ("Expire subtracts earlier buckets' expirations again", "an Expire that removes from one bucket and scans another", ""),
 "C18-m3": ("a bucket emptied by Expire gets a nil map", "all entries of a bucket expire at once, later Put into it", ""),
 "C19-m1": ("DistanceCmp resolves ties by key length even when the distances have equal length", "compared keys of different lengths and a query key no longer than both", "NOT DETECTED, and not claimed: cache entries all have the locus' length, so the change is only visible to the pure comparison laws of the statement, which are outside this technique (DESIGN.md 7)"),
 "C19-m2": ("shallower buckets sorted by distance to the locus instead of the key", "query sharing leading bits with the locus, two entries in one shallower bucket", ""),
 "C19-m3": ("ForEach start index skips the deepest bucket", "query key sharing more leading bits with the locus than any inserted key", ""),
 "C20-m1": ("visited mark set after the callback and skipped for empty results", "two contacted nodes naming the same closer node which answers with nothing", ""),
 "C20-m2": ("DHTGet seeds Closest on NumContacted==1", "the first contacted node fails", ""),
 "C20-m3": ("DHTPut updates Closest outside the accepted branch", "a farther responder answering while exactly one node has accepted", ""),
 "C01-w4m1": ("fragswarm.Tell checks the payload against the configured MTU, not the capped MTU()", "configured MTU above 255 fragments' worth and a payload between the two limits", "reported by C09 (accepted-above-mtu); the C01 workload never sends above MTU()"),
 "C04-w4m3": ("getFullAddr compares identities before WaitReady, only when a key is already known", "a stray datagram from the transport address created a channel entry before the Tell to a wrong identity", ""),
 "C04-w4x": ("wlswarm.WrapSecureAsk returns the asker alone: Tell/Receive come from the unfiltered inner swarm", "the ask-capable whitelist wrapper and a rejected peer sending tells", "missed at first (the only whitelisted ask-capable stack in C04 sat on P2PKE, which enforces the same whitelist beneath); legs wl/mem and wl/mbapp/mem added"),
 "C07-w4m1": ("a ready older session that swallows a handshake message ends the routing", "second handshake in the same role while an older session of that role is still held", ""),
 "C07-w4m2": ("timer wrapper clears its pending flag after the callback, wiping the callback's own re-arm", "loss of the first InitHello or of RespDone, or two losses", ""),
 "C07-w4m3": ("restarted initiator session keeps the ID of the abandoned hello", "expired initiator handshake, then crossing InitHellos with a particular hash order (1 in 3)", ""),
 "C09-w4m1": ("mbapp collector takes the part size from the first part that arrives", "three or more parts, length not a multiple of the part size, short last part arriving first", ""),
 "C09-w4m3": ("fragswarm Overhead constant smaller than the largest real header", "a per-peer message counter of 2^21 or more and a message of more than 128 full fragments", "missed at first: needs two million earlier messages to one peer. A guarded hook (build tag verif, /repo commit cd18d4f) now lets the simulation start the fragment ids and the mbapp counter anywhere in their range; reported since"),
 "C11-w4m3": ("quicswarm allocates the ask buffers once per session", "two asks from one peer overlapping in time", "missed at first (the Tier B workload was strictly sequential); bursts of overlapping asks with lingering handlers added; the interleaving does not replay, the driver reports Tier B replay agreement instead"),
 "C12-w4m2": ("p2pkeswarm.Close purges the channels before its workers have ended", "Close racing with a first-contact InitHello inside a worker", "found by the thorough tier only at first (7 of 12000 runs); first contacts are now timed to land at Close and the quick tier runs 8000 runs"),
 "C13-w4m1": ("AskHub.Deliver honours its context after the hand-over", "deliverer's context cancelled between rendezvous and end of the handler", ""),
 "C13-w4m3": ("Queue.Receive re-checks the context after the select", "message available and receiver cancelled at the same instant", ""),
 "C15-w4m1": ("string mux header built in a pooled buffer released too early", "two overlapping Tells on different channels", ""),
 "C16-w4m1": ("udpswarm.Addr.String via net.UDPAddr prints IPv4-mapped addresses as IPv4", "an IPv4-mapped address", "missed at first: the text survives marshal-parse-marshal, only the VALUE changes; the oracle now also compares address values (reflect.DeepEqual of the original and the parsed address)"),
 "C16-w4m3": ("multiswarm schema closures capture the loop variable (go 1.21 semantics)", "multiswarm over two transports with different address grammars", ""),
 "C02-r2m3": ("handshake completion through application data returns before the replay window is consulted", "initiator, RespDone lost or behind the responder's first data, exactly that message replayed", ""),
 "C03-r2m2": ("verifyAuthClaim wraps the wrong (nil) error: a failed signature check is swallowed", "a RespHello whose signature does not verify", ""),
 "C05-r2m1": ("key binding enforced only while a current session exists", "a handshake by another accepted key after the current session expired", ""),
 "C05-r2m2": ("a refused handshake clears the current slot instead of the prospective one", "initiator refusing the responder's key; the refused peer keeps sending", ""),
 "C05-r2m3": ("the ready-time key check is made on first contact only", "a rekey or re-handshake initiated by the channel and answered by another key", ""),
 "C06-r2m1": ("responder keeps a reference to the caller's receive buffer for the repeated-InitDone check", "RespDone lost and the caller reusing its receive buffers", "not a violation of C06 as stated (the statement's fair suffix also delivers the responder's own current handshake message, which still heals); missed by C07 at first because the channel world handed every message in a fresh buffer that was never reused: the harness now overwrites the receive buffer when the callback returns; reported by C07"),
 "C06-r2m3": ("cached handshake messages are handed out without copying", "caller reusing the returned slice as its output buffer", "missed at first (the session world passed nil output buffers and never touched what it got back); it now passes scratch buffers and overwrites input and output buffers after use"),
 "C08-r2m1": ("FIND_NODE result preallocated with the remote's (possibly negative) limit", "a request with a negative limit", ""),
 "C08-r2m2": ("mbapp deletes from its in-flight map under the read lock", "two receive workers handling reply-flagged packets in parallel (fatal concurrent map write)", "not reachable under the serialising scheduler of C08; reported by C14's race legs (data-race)"),
 "C10-r2m2": ("mbapp copies a fragment into the buffer after releasing the collector lock", "two receive workers on fragments of one message, one claiming the message while the other still copies", "missed at first: the instrumenter had no scheduling point AFTER an explicit Unlock; added (this also exposed H52)"),
 "C14-r2m3": ("Queue.DeliverVec adopts a single-segment sender buffer as the message's storage", "single-segment Tell on the in-memory swarm, sender reusing its buffer", ""),
 "C18-r2m2": ("overwriting an entry with an earlier expiry leaves the bucket's minimum stale", "overwrite shortening a TTL, Expire between the new and the old minimum", ""),
 "C18-r2m3": ("eviction fallback forgets to decrement the count", "capacity at the constructor boundary, all buckets at the minimum", ""),
 "C19-r2m1": ("ForEach clamps the query key to the locus length", "a cache whose keys are longer than its locus (DHTNode with a small peer cache), ties on the covered prefix", "missed at first (the cache worlds used keys of exactly the locus length); keys 1, 2 or up to 31 bytes longer than the locus added"),
 "C19-r2m3": ("ForEachCloser compares with swapped arguments", "an entry in a deeper bucket nearer to the key than the locus", ""),
 "C20-r2m1": ("the visited check after pop was removed", "an initial peer list naming one node twice", ""),
 "C20-r2m3": ("MinAccepted below 2 is silently raised to 2", "MinAccepted 1 and exactly one acceptor", ""),
}
for d in sorted(glob.glob('/verif/seeded/*/')):
    sid = os.path.basename(d.rstrip('/'))
    key = '-'.join(sid.split('-')[:2])
    if key not in NEEDS:
        continue
    what, needs, note = NEEDS[key]
    runs = []
    ev = os.path.join(d, 'eval.txt')
    if os.path.exists(ev):
        cur = None
        for line in open(ev):
            line = line.rstrip('\n')
            if line.startswith('== '):
                cur = {"command": line[3:], "outcome": []}
                runs.append(cur)
            elif cur is not None and re.match(r'^(violation|OK|INFRA)', line):
                cur["outcome"].append(line[:220])
    detected = [r for r in runs if any(o.startswith('violation') for o in r["outcome"])]
    meta = {
        "id": sid, "property": sid.split('-')[0], "change": what, "needs_in_order_to_manifest": needs,
        "written_by": "a sub-agent given only the property text and a scratch worktree of /repo (nothing from /verif)",
        "confirmed": "lib/seed_confirm.sh in a scratch worktree: demonstration passes without the change, fails with it; the patch builds; the complete existing suite passes with it (timing-sensitive packages re-run alone at most twice)",
        "files": sorted(f for f in os.listdir(d) if f not in ('meta.json',)),
        "checks_run_with_the_change_applied_to_/repo": runs,
        "detected": bool(detected),
        "detected_by": sorted({r["command"].split()[1] for r in detected}),
        "strengthening": note,
    }
    json.dump(meta, open(os.path.join(d, 'meta.json'), 'w'), indent=1)
    print(sid, "detected" if detected else "NOT detected", meta["detected_by"])
