#!/bin/sh
# Build the framework from files on disk only (offline). Exit non-zero on trouble.
set -e
cd "$(dirname "$0")"
export GOFLAGS=-mod=mod GOPROXY=off GOSUMDB=off GOTOOLCHAIN=local
mkdir -p build evidence replays
python3 - <<'PY'
import sys, os, shutil
sys.path.insert(0, "lib")
import build, overlay
# 1. instrumenter
build.instr_bin()
# 2. runtime overlay patch points must match the installed toolchain
s = build.new_scratch("setup")
try:
    if overlay.main(os.path.join(s, "ov")) != 0:
        sys.exit(2)
    # 3. warm the build cache: std with the overlay + one harness package
    build.prepare(s)
    dt = build.build_test(s, "c13", os.path.join(s, "c13.test"))
    print("setup: warm build %.1fs" % dt)
finally:
    shutil.rmtree(s, ignore_errors=True)
PY
echo "setup: ok"
