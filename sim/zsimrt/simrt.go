// Package zsimrt is the simulation runtime: a parking scheduler for goroutines
// running inside a testing/synctest bubble.
//
// It is copied into the scratch copy of the repository (as package
// go.brendoncarroll.net/p2p/zsimrt) so that instrumented library code and the
// harness share it. With no simulation active every hook is a nil check.
//
// Model: every goroutine of library or harness code is a Task. At every yield
// point a task parks on its private channel. The scheduler (the goroutine that
// called (*Sim).Run) repeatedly waits for quiescence (synctest.Wait: every
// goroutine in the bubble is durably blocked), builds the list of enabled
// actions (parked, eligible tasks in id order, then environment actions),
// draws one through the single choice stream and performs it.
package zsimrt

import (
	"fmt"
	"runtime"
	"sort"
	"strings"
	"sync"
	"sync/atomic"
	"testing/synctest"
	"time"
)

const (
	IdleStop = iota
	IdleRetry
	IdleAdvance
)

const (
	stNew int32 = iota
	stRunning
	stParked
	stDone
)

// Task is one goroutine under the scheduler's control.
type Task struct {
	ID     string
	Seq    int
	sim    *Sim
	wake   chan struct{}
	state  int32
	site   string
	cond   func() bool
	want   *lockReq
	nchild int
	goid   uint64
	// Daemon tasks do not count as "work left" (library background loops).
	steps int
}

func (t *Task) Site() string { return t.site }

type lockReq struct {
	m     any
	write bool
}

type lockState struct {
	writer  *Task
	readers int
}

// Action is something the environment (network, clock, workload driver) can do.
// Do runs on the scheduler goroutine while every task is parked or blocked; it
// must not call instrumented code.
type Action struct {
	Label  string
	Weight int
	Do     func()
}

// Chooser is the single source of every nondeterministic decision.
type Chooser interface {
	// Choose returns an index in [0,n). weights may be nil (uniform).
	Choose(n int, weights []int, label string) int
	// Nonce returns the select-order nonce for the next step.
	Nonce() uint64
}

type Sim struct {
	mu      sync.Mutex
	byGoid  map[uint64]*Task
	all     []*Task
	locks   map[any]*lockState
	kick    chan struct{}
	ch      Chooser
	stopped bool

	Step     int
	MaxSteps int
	Start    time.Time
	MaxTime  time.Duration

	// Env enumerates environment actions; called on the scheduler goroutine.
	Env func(out []Action) []Action
	// Done, when it returns true at a quiescent point, ends the run.
	Done func() bool
	// OnStep is called after every step at quiescence (invariants).
	OnStep func()
	// OnRelease is called on the scheduler goroutine just before a task is released.
	OnRelease func(taskID, site string)
	// ClockWeight is the weight of the built-in "advance clock" action while
	// tasks are runnable (0 = only when nothing else is enabled).
	ClockWeight int
	// ClockQuanta is the menu of maximal clock advances.
	ClockQuanta []time.Duration
	// TaskWeight is the weight of each runnable task.
	TaskWeight int
	// StopWhenIdle ends the run when no task is runnable and the environment
	// offers no action (for systems without timers).
	StopWhenIdle bool
	// Idle is set when the run ended because nothing could happen any more.
	Idle bool
	// OnIdle is called when no task is runnable and the environment offers no
	// action. It returns IdleStop, IdleRetry (harness state changed: recompute) or
	// IdleAdvance (advance the clock to the next timer).
	OnIdle func() int

	// Trace: rolling hash over (step, label) and optional full log.
	TraceHash uint64
	LogOn     bool
	Log       []string
	Bigrams   map[uint64]struct{}
	lastLabel uint64

	Stats struct {
		Steps, TaskSteps, EnvSteps, ClockSteps int
		MultiRunnable                          int
		AnonTasks                              int
		HitStepCap, HitTimeCap                 bool
		Tasks                                  int
		IdleRetries                            int
	}
	anon int
}

var cur atomic.Pointer[Sim]

// Current returns the active simulation or nil.
func Current() *Sim { return cur.Load() }

func New(ch Chooser) *Sim {
	return &Sim{
		byGoid:      map[uint64]*Task{},
		locks:       map[any]*lockState{},
		kick:        make(chan struct{}, 1),
		ch:          ch,
		MaxSteps:    20000,
		MaxTime:     24 * time.Hour,
		TaskWeight:  8,
		ClockWeight: 0,
		ClockQuanta: []time.Duration{time.Millisecond, 100 * time.Millisecond, time.Second, 20 * time.Second, 2 * time.Minute},
		Bigrams:     map[uint64]struct{}{},
	}
}

func goid() uint64 { return runtime.VerifGoid() }

func (s *Sim) self() *Task {
	g := goid()
	s.mu.Lock()
	t := s.byGoid[g]
	s.mu.Unlock()
	return t
}

func (s *Sim) newTask(parent *Task, site string) *Task {
	s.mu.Lock()
	defer s.mu.Unlock()
	var id string
	if parent == nil {
		s.anon++
		id = fmt.Sprintf("~%s#%d", site, s.anon)
	} else {
		parent.nchild++
		id = fmt.Sprintf("%s.%d", parent.ID, parent.nchild)
	}
	t := &Task{ID: id, Seq: len(s.all), sim: s, wake: make(chan struct{}), site: site}
	s.all = append(s.all, t)
	s.Stats.Tasks++
	return t
}

// selfOrAnon returns the calling goroutine's task, registering an anonymous
// one if the goroutine was started by code the instrumenter does not see.
func (s *Sim) selfOrAnon(site string) *Task {
	if t := s.self(); t != nil {
		return t
	}
	t := s.newTask(nil, site)
	s.mu.Lock()
	t.goid = goid()
	s.byGoid[t.goid] = t
	s.Stats.AnonTasks++
	t.state = stRunning
	s.mu.Unlock()
	return t
}

func (s *Sim) park(t *Task) {
	s.mu.Lock()
	t.state = stParked
	s.mu.Unlock()
	select {
	case s.kick <- struct{}{}:
	default:
	}
	<-t.wake
}

// ---- hooks called by instrumented code ------------------------------------

// Yield parks the calling task until the scheduler releases it.
func Yield(site string) {
	s := cur.Load()
	if s == nil {
		return
	}
	t := s.selfOrAnon(site)
	t.site = site
	s.park(t)
}

// Spawn allocates the identity of a goroutine about to be started by the
// calling task. Returns nil when no simulation is active.
func Spawn(site string) *Task {
	s := cur.Load()
	if s == nil {
		return nil
	}
	parent := s.self()
	if parent == nil {
		return s.newTask(nil, site)
	}
	return s.newTask(parent, site)
}

// Begin registers the calling goroutine as task t and parks it.
func Begin(t *Task) {
	if t == nil {
		return
	}
	s := t.sim
	if cur.Load() != s {
		// the simulation this task belonged to is over; never run its code
		select {}
	}
	s.mu.Lock()
	t.goid = goid()
	s.byGoid[t.goid] = t
	s.mu.Unlock()
	s.park(t)
}

// End marks the calling task finished.
func End() {
	s := cur.Load()
	if s == nil {
		return
	}
	g := goid()
	s.mu.Lock()
	if t := s.byGoid[g]; t != nil {
		t.state = stDone
		delete(s.byGoid, g)
	}
	s.mu.Unlock()
}

// WrapFunc wraps a func started later on a goroutine of its own (time.AfterFunc,
// go statements). Each invocation becomes a new child task of the wrapping task.
func WrapFunc(site string, f func()) func() {
	s := cur.Load()
	if s == nil {
		return f
	}
	parent := s.self()
	base := "~" + site
	s.mu.Lock()
	if parent != nil {
		parent.nchild++
		base = fmt.Sprintf("%s.%d", parent.ID, parent.nchild)
	} else {
		s.anon++
		base = fmt.Sprintf("~%s#%d", site, s.anon)
	}
	s.mu.Unlock()
	var n int32
	return func() {
		if cur.Load() != s {
			select {} // timer of a finished simulation
		}
		k := atomic.AddInt32(&n, 1)
		s.mu.Lock()
		t := &Task{ID: fmt.Sprintf("%s.t%d", base, k), Seq: len(s.all), sim: s, wake: make(chan struct{}), site: site}
		s.all = append(s.all, t)
		s.Stats.Tasks++
		s.mu.Unlock()
		Begin(t)
		defer End()
		f()
	}
}

// WrapGo is WrapFunc for errgroup-style func() error.
func WrapGo(site string, f func() error) func() error {
	s := cur.Load()
	if s == nil {
		return f
	}
	t := Spawn(site)
	return func() error {
		Begin(t)
		defer End()
		return f()
	}
}

// BeforeLock parks until the scheduler grants the lock to this task.
func BeforeLock(m any, write bool, site string) {
	s := cur.Load()
	if s == nil {
		return
	}
	t := s.selfOrAnon(site)
	t.site = site
	s.mu.Lock()
	t.want = &lockReq{m: m, write: write}
	s.mu.Unlock()
	s.park(t)
}

// AfterUnlock records that the calling task released m.
func AfterUnlock(m any, write bool) {
	s := cur.Load()
	if s == nil {
		return
	}
	s.mu.Lock()
	ls := s.locks[m]
	if ls != nil {
		if write {
			ls.writer = nil
		} else if ls.readers > 0 {
			ls.readers--
		}
		if ls.writer == nil && ls.readers == 0 {
			delete(s.locks, m)
		}
	}
	s.mu.Unlock()
}

// ---- harness API ------------------------------------------------------------

// Go starts a harness task.
func Go(name string, f func()) {
	s := cur.Load()
	if s == nil {
		go f()
		return
	}
	t := Spawn(name)
	go func() {
		Begin(t)
		defer End()
		f()
	}()
}

// WaitUntil parks the calling task until cond() holds. cond is evaluated on the
// scheduler goroutine at quiescent points and must be side-effect free.
func WaitUntil(site string, cond func() bool) {
	s := cur.Load()
	if s == nil {
		panic("zsimrt.WaitUntil without simulation")
	}
	t := s.selfOrAnon(site)
	t.site = site
	s.mu.Lock()
	t.cond = cond
	s.mu.Unlock()
	s.park(t)
}

// Sleep blocks the calling task for d of simulated time and parks it afterwards,
// so that a woken sleeper runs no code before the scheduler releases it.
func Sleep(d time.Duration) {
	time.Sleep(d)
	Yield("harness/slept")
}

// Rand draws a workload decision from the single choice stream. Must be called
// by the running task or by the scheduler goroutine.
func (s *Sim) Rand(n int, label string) int {
	if n <= 1 {
		return 0
	}
	return s.ch.Choose(n, nil, label)
}

// Stop ends the run at the next quiescent point.
func (s *Sim) Stop() {
	s.mu.Lock()
	s.stopped = true
	s.mu.Unlock()
}

func (s *Sim) Now() time.Duration { return time.Since(s.Start) }

func (s *Sim) Logf(format string, args ...any) {
	if s.LogOn {
		s.Log = append(s.Log, fmt.Sprintf("%d t=%v ", s.Step, s.Now())+fmt.Sprintf(format, args...))
	}
}

// TaskInfo is a snapshot of a task for oracles.
type TaskInfo struct {
	ID      string
	Site    string
	Parked  bool // parked at a yield point (eligible or not)
	Blocked bool // blocked in a real operation (channel, WaitGroup, ...)
	Done    bool
	Cond    bool // parked in WaitUntil
	WantsLk bool
}

// Tasks returns a snapshot of all tasks. Call only at quiescence.
func (s *Sim) Tasks() []TaskInfo {
	s.mu.Lock()
	defer s.mu.Unlock()
	out := make([]TaskInfo, 0, len(s.all))
	for _, t := range s.all {
		out = append(out, TaskInfo{ID: t.ID, Site: t.site, Parked: t.state == stParked, Blocked: t.state == stRunning || t.state == stNew,
			Done: t.state == stDone, Cond: t.cond != nil, WantsLk: t.want != nil})
	}
	return out
}

// LiveUnder reports tasks that are not done and whose id has the given prefix.
func (s *Sim) LiveUnder(prefix string) []TaskInfo {
	var out []TaskInfo
	for _, ti := range s.Tasks() {
		if !ti.Done && (ti.ID == prefix || strings.HasPrefix(ti.ID, prefix+".")) {
			out = append(out, ti)
		}
	}
	return out
}

// Self returns the id of the calling task ("" if none).
func Self() string {
	s := cur.Load()
	if s == nil {
		return ""
	}
	if t := s.self(); t != nil {
		return t.ID
	}
	return ""
}

func fnv(h uint64, s string) uint64 {
	if h == 0 {
		h = 1469598103934665603
	}
	for i := 0; i < len(s); i++ {
		h ^= uint64(s[i])
		h *= 1099511628211
	}
	return h
}

func (s *Sim) note(label string) {
	lh := fnv(0, label)
	s.TraceHash = (s.TraceHash ^ lh) * 1099511628211
	s.TraceHash ^= uint64(s.Step)
	bg := s.lastLabel*31 ^ lh
	if len(s.Bigrams) < 1<<16 {
		s.Bigrams[bg] = struct{}{}
	}
	s.lastLabel = lh
	if s.LogOn {
		s.Log = append(s.Log, fmt.Sprintf("%d t=%v > %s", s.Step, s.Now(), label))
	}
}

func (s *Sim) eligible(t *Task) bool {
	if t.state != stParked {
		return false
	}
	if t.cond != nil {
		return t.cond()
	}
	if t.want != nil {
		ls := s.locks[t.want.m]
		if ls == nil {
			return true
		}
		if t.want.write {
			return ls.writer == nil && ls.readers == 0
		}
		return ls.writer == nil
	}
	return true
}

func (s *Sim) release(t *Task) {
	s.mu.Lock()
	if t.want != nil {
		ls := s.locks[t.want.m]
		if ls == nil {
			ls = &lockState{}
			s.locks[t.want.m] = ls
		}
		if t.want.write {
			ls.writer = t
		} else {
			ls.readers++
		}
		t.want = nil
	}
	t.cond = nil
	t.state = stRunning
	t.steps++
	s.mu.Unlock()
	t.wake <- struct{}{}
}

func (s *Sim) advanceClock(q time.Duration) {
	select {
	case <-s.kick:
	default:
	}
	tm := time.NewTimer(q)
	select {
	case <-s.kick:
	case <-tm.C:
	}
	tm.Stop()
}

// Run executes root as the first task and schedules until Done() holds, Stop is
// called, nothing can ever happen again, or a cap is hit. It must be called
// from inside a synctest bubble.
func (s *Sim) Run(root func()) {
	s.Start = time.Now()
	cur.Store(s)
	runtime.VerifSetSelect(true, 0)
	defer func() {
		runtime.VerifSetSelect(false, 0)
		cur.Store(nil)
	}()
	t0 := &Task{ID: "0", sim: s, wake: make(chan struct{}), site: "root"}
	s.all = append(s.all, t0)
	s.Stats.Tasks++
	go func() {
		Begin(t0)
		defer End()
		root()
	}()
	var acts []Action
	var weights []int
	var run []*Task
	idleClock := 0
	for {
		synctest.Wait()
		if s.OnStep != nil {
			s.OnStep()
		}
		s.mu.Lock()
		stopped := s.stopped
		s.mu.Unlock()
		if stopped || (s.Done != nil && s.Done()) {
			return
		}
		if s.Step >= s.MaxSteps {
			s.Stats.HitStepCap = true
			return
		}
		if s.Now() >= s.MaxTime {
			s.Stats.HitTimeCap = true
			return
		}
		// enabled tasks in deterministic (id) order
		run = run[:0]
		s.mu.Lock()
		for _, t := range s.all {
			if s.eligible(t) {
				run = append(run, t)
			}
		}
		s.mu.Unlock()
		sort.Slice(run, func(i, j int) bool { return run[i].ID < run[j].ID })
		acts = acts[:0]
		if s.Env != nil {
			acts = s.Env(acts)
		}
		if len(run) > 1 {
			s.Stats.MultiRunnable++
		}
		if len(run) == 0 && len(acts) == 0 && s.StopWhenIdle {
			s.Idle = true
			return
		}
		if len(run) == 0 && len(acts) == 0 && s.OnIdle != nil {
			switch s.OnIdle() {
			case IdleStop:
				s.Idle = true
				return
			case IdleRetry:
				s.Stats.IdleRetries++
				if s.Stats.IdleRetries > 10000 {
					s.Stats.HitStepCap = true
					return
				}
				continue
			}
		}
		n := len(run) + len(acts)
		clockIdx := -1
		if n == 0 || s.ClockWeight > 0 {
			clockIdx = n
			n++
		}
		weights = weights[:0]
		for range run {
			weights = append(weights, s.TaskWeight)
		}
		for _, a := range acts {
			w := a.Weight
			if w <= 0 {
				w = 1
			}
			weights = append(weights, w)
		}
		if clockIdx >= 0 {
			w := s.ClockWeight
			if w <= 0 {
				w = 1
			}
			weights = append(weights, w)
		}
		i := 0
		if n > 1 {
			i = s.ch.Choose(n, weights, "step")
		}
		s.Step++
		s.Stats.Steps++
		switch {
		case i < len(run):
			t := run[i]
			idleClock = 0
			s.Stats.TaskSteps++
			s.note(t.ID + "@" + t.site)
			if s.OnRelease != nil {
				s.OnRelease(t.ID, t.site)
			}
			runtime.VerifSetSelect(true, s.ch.Nonce())
			s.release(t)
		case i < len(run)+len(acts):
			a := acts[i-len(run)]
			idleClock = 0
			s.Stats.EnvSteps++
			s.note(a.Label)
			a.Do()
		default:
			qi := 0
			var q time.Duration
			if len(run) == 0 && len(acts) == 0 {
				// nothing else can happen: jump to the next timer (the quantum only caps
				// the jump; no decision is drawn, so idle periods cost no choices)
				for _, x := range s.ClockQuanta {
					if x > q {
						q = x
					}
				}
			} else {
				if len(s.ClockQuanta) > 1 {
					qi = s.ch.Choose(len(s.ClockQuanta), nil, "quantum")
				}
				q = s.ClockQuanta[qi]
			}
			s.Stats.ClockSteps++
			s.note("clock")
			before := time.Now()
			s.advanceClock(q)
			if len(run) == 0 && len(acts) == 0 {
				// nothing was enabled: if the clock can no longer wake anything we
				// would spin until the time cap; count idle advances of full length
				if time.Since(before) >= q {
					idleClock++
				} else {
					idleClock = 0
				}
				if idleClock > 64 {
					s.Idle = true
					return
				}
			}
		}
	}
}
