// Package simcore holds what every simulation binary shares: the single choice
// stream (generation and replay), run results, the batch/replay protocol spoken
// with the Python driver, and small helpers.
package simcore

import (
	"encoding/json"
	"fmt"
	"math/rand/v2"
	"os"
	"sort"
	"strconv"
	"strings"
)

// Stream is the one source of nondeterminism of a run. In generation mode it
// draws from a PCG seeded by the run seed; in replay mode it reads a recorded
// list (value mod n; exhausted => 0). 0 is always the simplest choice.
type Stream struct {
	rng       *rand.Rand
	Replaying bool
	replay    []uint32
	pos       int
	Rec       []uint32
	Limit     int
}

func NewGen(seed uint64) *Stream {
	return &Stream{rng: rand.New(rand.NewPCG(seed, seed^0x9E3779B97F4A7C15)), Limit: 1 << 22}
}

func NewReplay(list []uint32) *Stream {
	return &Stream{Replaying: true, replay: list, Limit: 1 << 22}
}

func (s *Stream) next(gen func() uint32) uint32 {
	var v uint32
	if s.Replaying {
		if s.pos < len(s.replay) {
			v = s.replay[s.pos]
		}
		s.pos++
	} else {
		v = gen()
	}
	if len(s.Rec) < s.Limit {
		s.Rec = append(s.Rec, v)
	}
	return v
}

// Choose implements zsimrt.Chooser.
func (s *Stream) Choose(n int, weights []int, label string) int {
	if n <= 1 {
		return 0
	}
	v := s.next(func() uint32 {
		if weights == nil {
			return uint32(s.rng.IntN(n))
		}
		tot := 0
		for _, w := range weights[:n] {
			tot += w
		}
		x := s.rng.IntN(tot)
		for i, w := range weights[:n] {
			if x < w {
				return uint32(i)
			}
			x -= w
		}
		return 0
	})
	return int(v % uint32(n))
}

// Nonce implements zsimrt.Chooser: the select-order nonce of the next step.
func (s *Stream) Nonce() uint64 {
	return uint64(s.next(func() uint32 {
		if s.rng.IntN(2) == 0 {
			return 0
		}
		return s.rng.Uint32() | 1
	}))
}

// Fixed records a decision whose value the caller computed (an enumeration index,
// not a random draw); on replay the recorded value comes back, so enumerated
// runs replay and minimise like random ones.
func (s *Stream) Fixed(v uint32) uint32 {
	return s.next(func() uint32 { return v })
}

// Intn draws a workload decision.
func (s *Stream) Intn(n int) int { return s.Choose(n, nil, "") }

// Bool draws a coin with probability num/den of true (false is "simplest").
func (s *Stream) Bool(num, den int) bool {
	v := s.next(func() uint32 {
		if s.rng.IntN(den) < num {
			return 1
		}
		return 0
	})
	return v%2 == 1
}

// Bytes fills b with stream-derived bytes that do not consume one decision per
// byte: one decision seeds a local generator.
func (s *Stream) Bytes(b []byte) {
	seed := s.next(func() uint32 { return s.rng.Uint32() })
	x := uint64(seed)*0x9E3779B97F4A7C15 + 0x1234567
	for i := range b {
		x ^= x << 13
		x ^= x >> 7
		x ^= x << 17
		b[i] = byte(x >> 24)
	}
}

// Pick returns one of the given values.
func Pick[T any](s *Stream, xs ...T) T { return xs[s.Intn(len(xs))] }

// Violation is one oracle failure.
type Violation struct {
	Class  string         `json:"class"`
	Msg    string         `json:"msg"`
	Step   int            `json:"step"`
	Detail map[string]any `json:"detail,omitempty"`
}

// Result is what one run reports.
type Result struct {
	Prop       string         `json:"prop"`
	Leg        string         `json:"leg,omitempty"`
	Seed       uint64         `json:"seed"`
	K          int            `json:"k"`
	Cfg        map[string]any `json:"cfg,omitempty"`
	Steps      int            `json:"steps"`
	SimMs      int64          `json:"sim_ms"`
	Faults     map[string]int `json:"faults,omitempty"`
	Probes     map[string]int `json:"probes,omitempty"`
	TraceHash  string         `json:"trace_hash"`
	Bigrams    []uint64       `json:"bigrams,omitempty"`
	NBigrams   int            `json:"nbigrams"`
	Checks     int            `json:"checks"`
	Nontrivial bool           `json:"nontrivial"`
	Violations []Violation    `json:"violations,omitempty"`
	NDecisions int            `json:"ndecisions"`
	Sample     any            `json:"sample,omitempty"`
	Log        []string       `json:"log,omitempty"`
	Components map[string]any `json:"components,omitempty"`
}

func (r *Result) Fault(kind string)         { r.FaultN(kind, 1) }
func (r *Result) FaultN(kind string, n int) { inc(&r.Faults, kind, n) }
func (r *Result) Probe(name string)         { inc(&r.Probes, name, 1) }
func (r *Result) ProbeN(name string, n int) { inc(&r.Probes, name, n) }
func inc(m *map[string]int, k string, n int) {
	if *m == nil {
		*m = map[string]int{}
	}
	(*m)[k] += n
}

// Violate records an oracle failure; the run goes on (no run-wide failure flag).
func (r *Result) Violate(step int, class, format string, args ...any) *Violation {
	if len(r.Violations) >= 50 {
		return &Violation{}
	}
	r.Violations = append(r.Violations, Violation{Class: class, Msg: fmt.Sprintf(format, args...), Step: step})
	return &r.Violations[len(r.Violations)-1]
}

func (v *Violation) With(k string, val any) *Violation {
	if v.Detail == nil {
		v.Detail = map[string]any{}
	}
	v.Detail[k] = val
	return v
}

// ReplayFile is the on-disk form of one run.
type ReplayFile struct {
	Prop      string      `json:"prop"`
	Leg       string      `json:"leg,omitempty"`
	Seed      uint64      `json:"seed"`
	Tier      string      `json:"tier"`
	Decisions []uint32    `json:"decisions"`
	Violation *Violation  `json:"violation,omitempty"`
	Result    *Result     `json:"result,omitempty"`
	Minimised bool        `json:"minimised,omitempty"`
	Note      string      `json:"note,omitempty"`
	Extra     interface{} `json:"extra,omitempty"`
}

// Mix derives the k-th run seed of a batch.
func Mix(seed0 uint64, k int) uint64 {
	x := seed0 + uint64(k)*0x9E3779B97F4A7C15 + 0x1F83D9ABFB41BD6B
	x ^= x >> 30
	x *= 0xBF58476D1CE4E5B9
	x ^= x >> 27
	x *= 0x94D049BB133111EB
	x ^= x >> 31
	return x
}

// RunFunc executes one run driven by st and fills res.
type RunFunc func(st *Stream, tier string, leg string, logOn bool, res *Result)

func envInt(name string, def int) int {
	if v := os.Getenv(name); v != "" {
		n, err := strconv.Atoi(v)
		if err == nil {
			return n
		}
	}
	return def
}

// Main implements the batch / replay protocol. Environment:
//
//	SIM_MODE=batch  SIM_SEED0 SIM_FIRST SIM_COUNT SIM_TIER SIM_OUT SIM_LEGS SIM_REPLAY_DIR
//	SIM_MODE=replay SIM_REPLAY=<file> SIM_OUT SIM_LOG=1
//
// Before each run a {"start":k} line is written so that a crash of the process
// can be attributed to a seed by the driver.
func Main(prop string, legs []string, run RunFunc) {
	mode := os.Getenv("SIM_MODE")
	out := os.Stdout
	if p := os.Getenv("SIM_OUT"); p != "" {
		f, err := os.OpenFile(p, os.O_CREATE|os.O_WRONLY|os.O_APPEND, 0o644)
		if err != nil {
			fmt.Fprintln(os.Stderr, "simcore:", err)
			os.Exit(2)
		}
		defer f.Close()
		out = f
	}
	emit := func(v any) {
		b, err := json.Marshal(v)
		if err != nil {
			fmt.Fprintln(os.Stderr, "simcore: marshal:", err)
			os.Exit(2)
		}
		out.Write(append(b, '\n'))
	}
	tier := os.Getenv("SIM_TIER")
	if tier == "" {
		tier = "quick"
	}
	if l := os.Getenv("SIM_LEGS"); l != "" {
		legs = strings.Split(l, ",")
	}
	switch mode {
	case "replay":
		data, err := os.ReadFile(os.Getenv("SIM_REPLAY"))
		if err != nil {
			fmt.Fprintln(os.Stderr, "simcore:", err)
			os.Exit(2)
		}
		var rf ReplayFile
		if err := json.Unmarshal(data, &rf); err != nil {
			fmt.Fprintln(os.Stderr, "simcore:", err)
			os.Exit(2)
		}
		st := NewReplay(rf.Decisions)
		res := &Result{Prop: prop, Leg: rf.Leg, Seed: rf.Seed, K: -1}
		if rf.Tier != "" {
			tier = rf.Tier
		}
		emit(map[string]any{"start": -1, "seed": rf.Seed})
		run(st, tier, rf.Leg, os.Getenv("SIM_LOG") != "", res)
		res.NDecisions = len(st.Rec)
		emit(map[string]any{"result": res, "decisions": st.Rec})
	default:
		seed0 := uint64(envInt("SIM_SEED0", 1))
		first := envInt("SIM_FIRST", 0)
		count := envInt("SIM_COUNT", 1)
		stride := envInt("SIM_STRIDE", 1)
		rdir := os.Getenv("SIM_REPLAY_DIR")
		for i := 0; i < count; i++ {
			k := first + i*stride
			leg := legs[k%len(legs)]
			seed := Mix(seed0, k)
			emit(map[string]any{"start": k, "seed": seed, "leg": leg})
			st := NewGen(seed)
			res := &Result{Prop: prop, Leg: leg, Seed: seed, K: k}
			run(st, tier, leg, os.Getenv("SIM_LOG") != "", res)
			res.NDecisions = len(st.Rec)
			if len(res.Violations) > 0 && rdir != "" {
				rf := ReplayFile{Prop: prop, Leg: leg, Seed: seed, Tier: tier, Decisions: st.Rec, Violation: &res.Violations[0], Result: res}
				b, _ := json.Marshal(rf)
				if err := os.WriteFile(fmt.Sprintf("%s/%s-%s-%d.json", rdir, prop, SafeName(leg), k), b, 0o644); err != nil {
					fmt.Fprintln(os.Stderr, "simcore: cannot write replay file:", err)
					os.Exit(2)
				}
			}
			emit(map[string]any{"result": res})
		}
	}
}

// SortedKeys is a helper for deterministic iteration in harness code.
func SortedKeys[V any](m map[string]V) []string {
	ks := make([]string, 0, len(m))
	for k := range m {
		ks = append(ks, k)
	}
	sort.Strings(ks)
	return ks
}

// SafeName makes a leg name usable inside a file name.
func SafeName(s string) string {
	b := []byte(s)
	for i, c := range b {
		if !(c >= 'a' && c <= 'z' || c >= 'A' && c <= 'Z' || c >= '0' && c <= '9' || c == '-' || c == '.') {
			b[i] = '_'
		}
	}
	return string(b)
}
