package simcore

import (
	"fmt"
	"io"
	"log"
	"strings"
	"testing"
	"testing/cryptotest"
	"testing/synctest"
)

func init() {
	// kademlia and vswarm print through the global logger
	log.SetOutput(io.Discard)
}

// Bubble runs f inside a synctest bubble with crypto/rand seeded. Goroutines
// that are still blocked when f returns make synctest panic with a deadlock
// error; that panic is expected (tasks are simply left parked) and recovered.
// Any other panic is re-raised.
func Bubble(t *testing.T, cryptoSeed uint64, f func()) {
	cryptotest.SetGlobalRandom(t, cryptoSeed)
	defer func() {
		if r := recover(); r != nil {
			msg := fmt.Sprint(r)
			if strings.Contains(msg, "deadlock:") {
				return
			}
			panic(r)
		}
	}()
	synctest.Test(t, func(t *testing.T) { f() })
}
