// instr adds scheduler hooks to a scratch copy of the repository.
//
// It only ADDS calls into package zsimrt (original statements are kept):
//   - Yield before every statement with a channel send/receive/close/select and
//     after every one that can block (first statement of each select clause);
//   - BeforeLock / AfterUnlock around Lock/RLock/Unlock/RUnlock and Once.Do;
//   - Yield after X.Wait() and before statements using sync/atomic;
//   - task identity for go statements, X.Go(f) and time.AfterFunc(d, f).
//
// usage: instr <repo-copy-root> [-report file]
package main

import (
	"bytes"
	"fmt"
	"go/ast"
	"go/format"
	"go/parser"
	"go/token"
	"os"
	"path/filepath"
	"sort"
	"strconv"
	"strings"
)

const rtImport = "go.brendoncarroll.net/p2p/zsimrt"

type ctx struct {
	fset    *token.FileSet
	pkg     string
	fn      string
	counts  map[string]int
	used    bool
	sites   []string
	problem []string
	file    string
}

func (c *ctx) site(kind string) *ast.BasicLit {
	key := c.pkg + "." + c.fn + "/" + kind
	c.counts[key]++
	name := fmt.Sprintf("%s#%d", key, c.counts[key])
	c.sites = append(c.sites, name)
	return &ast.BasicLit{Kind: token.STRING, Value: strconv.Quote(name)}
}

func rtCall(name string, args ...ast.Expr) *ast.CallExpr {
	return &ast.CallExpr{Fun: &ast.SelectorExpr{X: ast.NewIdent("zsimrt"), Sel: ast.NewIdent(name)}, Args: args}
}

func (c *ctx) yield(kind string) ast.Stmt {
	c.used = true
	return &ast.ExprStmt{X: rtCall("Yield", c.site(kind))}
}

func boolLit(b bool) ast.Expr {
	if b {
		return ast.NewIdent("true")
	}
	return ast.NewIdent("false")
}

// opsIn reports which channel/atomic operations occur directly in the given
// nodes (not inside function literals or nested blocks).
type ops struct{ recv, send, closeCall, atomicCall, waitCall bool }

func scan(nodes ...ast.Node) ops {
	var o ops
	for _, n := range nodes {
		if n == nil || isNilNode(n) {
			continue
		}
		ast.Inspect(n, func(x ast.Node) bool {
			switch v := x.(type) {
			case *ast.FuncLit:
				return false
			case *ast.BlockStmt:
				return false
			case *ast.UnaryExpr:
				if v.Op == token.ARROW {
					o.recv = true
				}
			case *ast.SendStmt:
				o.send = true
			case *ast.CallExpr:
				if id, ok := v.Fun.(*ast.Ident); ok && id.Name == "close" && len(v.Args) == 1 {
					o.closeCall = true
				}
				if sel, ok := v.Fun.(*ast.SelectorExpr); ok {
					if id, ok := sel.X.(*ast.Ident); ok && id.Name == "atomic" {
						o.atomicCall = true
					}
					if sel.Sel.Name == "Wait" && len(v.Args) == 0 {
						o.waitCall = true
					}
				}
			}
			return true
		})
	}
	return o
}

func isNilNode(n ast.Node) bool {
	switch v := n.(type) {
	case ast.Expr:
		return v == nil
	case ast.Stmt:
		return v == nil
	}
	return false
}

func exprNode(e ast.Expr) ast.Node {
	if e == nil {
		return nil
	}
	return e
}
func stmtNode(s ast.Stmt) ast.Node {
	if s == nil {
		return nil
	}
	return s
}

// lockCall recognises X.Lock() etc. as an expression statement's call.
func lockCall(e ast.Expr) (recv ast.Expr, name string, ok bool) {
	call, isCall := e.(*ast.CallExpr)
	if !isCall || len(call.Args) != 0 {
		return nil, "", false
	}
	sel, isSel := call.Fun.(*ast.SelectorExpr)
	if !isSel {
		return nil, "", false
	}
	switch sel.Sel.Name {
	case "Lock", "RLock", "Unlock", "RUnlock":
		return sel.X, sel.Sel.Name, true
	}
	return nil, "", false
}

func onceDo(e ast.Expr) (recv ast.Expr, ok bool) {
	call, isCall := e.(*ast.CallExpr)
	if !isCall || len(call.Args) != 1 {
		return nil, false
	}
	sel, isSel := call.Fun.(*ast.SelectorExpr)
	if !isSel || sel.Sel.Name != "Do" {
		return nil, false
	}
	var last string
	switch x := sel.X.(type) {
	case *ast.SelectorExpr:
		last = x.Sel.Name
	case *ast.Ident:
		last = x.Name
	}
	if strings.HasSuffix(strings.ToLower(last), "once") {
		return sel.X, true
	}
	return nil, false
}

func addrOf(e ast.Expr) ast.Expr { return &ast.UnaryExpr{Op: token.AND, X: e} }

func (c *ctx) problemf(pos token.Pos, format string, args ...any) {
	c.problem = append(c.problem, fmt.Sprintf("%s: %s", c.fset.Position(pos), fmt.Sprintf(format, args...)))
}

// rewriteExprs wraps function arguments of X.Go(f) and time.AfterFunc(d,f) found
// anywhere in the statement (outside nested function literals).
func (c *ctx) rewriteCalls(n ast.Node) {
	ast.Inspect(n, func(x ast.Node) bool {
		switch v := x.(type) {
		case *ast.FuncLit:
			return false
		case *ast.CallExpr:
			sel, ok := v.Fun.(*ast.SelectorExpr)
			if !ok {
				return true
			}
			if sel.Sel.Name == "Go" && len(v.Args) == 1 {
				if id, isID := sel.X.(*ast.Ident); !(isID && id.Name == "zsimrt") {
					c.used = true
					v.Args[0] = rtCall("WrapGo", c.site("go"), v.Args[0])
				}
			}
			if id, isID := sel.X.(*ast.Ident); isID && id.Name == "time" && sel.Sel.Name == "AfterFunc" && len(v.Args) == 2 {
				c.used = true
				v.Args[1] = rtCall("WrapFunc", c.site("timer"), v.Args[1])
			}
		}
		return true
	})
}

func (c *ctx) list(in []ast.Stmt) []ast.Stmt {
	var out []ast.Stmt
	for _, st := range in {
		pre, self, post := c.stmt(st)
		out = append(out, pre...)
		out = append(out, self)
		out = append(out, post...)
	}
	return out
}

func (c *ctx) block(b *ast.BlockStmt) {
	if b == nil {
		return
	}
	b.List = c.list(b.List)
}

// funcLits instruments the bodies of function literals that occur directly in n.
func (c *ctx) funcLits(n ast.Node) {
	if n == nil {
		return
	}
	ast.Inspect(n, func(x ast.Node) bool {
		switch v := x.(type) {
		case *ast.FuncLit:
			c.block(v.Body)
			return false
		case *ast.BlockStmt:
			return false
		}
		return true
	})
}

func (c *ctx) stmt(st ast.Stmt) (pre []ast.Stmt, self ast.Stmt, post []ast.Stmt) {
	self = st
	switch v := st.(type) {
	case *ast.LabeledStmt:
		p, s, q := c.stmt(v.Stmt)
		v.Stmt = s
		return p, v, q
	case *ast.BlockStmt:
		c.block(v)
		return
	case *ast.IfStmt:
		o := scan(stmtNode(v.Init), exprNode(v.Cond))
		if o.recv || o.send {
			c.problemf(v.Pos(), "channel operation in if header is not instrumented after the operation")
			pre = append(pre, c.yield("chan"))
		}
		c.funcLits(stmtNode(v.Init))
		c.funcLits(exprNode(v.Cond))
		c.block(v.Body)
		if v.Else != nil {
			_, e, _ := c.stmt(v.Else)
			v.Else = e
		}
		return
	case *ast.ForStmt:
		o := scan(stmtNode(v.Init), exprNode(v.Cond), stmtNode(v.Post))
		if o.recv || o.send {
			c.problemf(v.Pos(), "channel operation in for header")
		}
		c.block(v.Body)
		return
	case *ast.RangeStmt:
		c.funcLits(exprNode(v.X))
		c.block(v.Body)
		return
	case *ast.SwitchStmt:
		o := scan(stmtNode(v.Init), exprNode(v.Tag))
		if o.recv || o.send {
			c.problemf(v.Pos(), "channel operation in switch header")
		}
		for _, cc := range v.Body.List {
			cl := cc.(*ast.CaseClause)
			cl.Body = c.list(cl.Body)
		}
		return
	case *ast.TypeSwitchStmt:
		for _, cc := range v.Body.List {
			cl := cc.(*ast.CaseClause)
			cl.Body = c.list(cl.Body)
		}
		return
	case *ast.SelectStmt:
		pre = append(pre, c.yield("select"))
		for _, cc := range v.Body.List {
			cl := cc.(*ast.CommClause)
			body := c.list(cl.Body)
			cl.Body = append([]ast.Stmt{c.yield("selected")}, body...)
		}
		return
	case *ast.GoStmt:
		return c.goStmt(v)
	case *ast.DeferStmt:
		if recv, name, ok := lockCall(v.Call); ok && (name == "Unlock" || name == "RUnlock") {
			c.used = true
			write := name == "Unlock"
			orig := &ast.ExprStmt{X: v.Call}
			after := &ast.ExprStmt{X: rtCall("AfterUnlock", addrOf(recv), boolLit(write))}
			v.Call = &ast.CallExpr{Fun: &ast.FuncLit{Type: &ast.FuncType{Params: &ast.FieldList{}}, Body: &ast.BlockStmt{List: []ast.Stmt{orig, after}}}}
			return
		}
		c.funcLits(v.Call)
		c.rewriteCalls(v.Call)
		return
	case *ast.ReturnStmt:
		o := scan(v)
		c.funcLits(v)
		c.rewriteCalls(v)
		if o.waitCall && len(v.Results) == 1 {
			// return X.Wait()  =>  _w := X.Wait(); Yield; return _w
			c.used = true
			tmp := ast.NewIdent("_zw")
			asg := &ast.AssignStmt{Lhs: []ast.Expr{tmp}, Tok: token.DEFINE, Rhs: []ast.Expr{v.Results[0]}}
			v.Results = []ast.Expr{tmp}
			blk := &ast.BlockStmt{List: []ast.Stmt{asg, c.yield("waited"), v}}
			return nil, blk, nil
		}
		if o.recv || o.send {
			c.problemf(v.Pos(), "channel operation inside return")
			pre = append(pre, c.yield("chan"))
		}
		return
	case *ast.ExprStmt:
		if recv, name, ok := lockCall(v.X); ok {
			c.used = true
			switch name {
			case "Lock", "RLock":
				pre = append(pre, &ast.ExprStmt{X: rtCall("BeforeLock", addrOf(recv), boolLit(name == "Lock"), c.site("lock"))})
			case "Unlock", "RUnlock":
				post = append(post, &ast.ExprStmt{X: rtCall("AfterUnlock", addrOf(recv), boolLit(name == "Unlock"))})
				// what follows an explicit unlock runs concurrently with whoever takes the lock next
				post = append(post, c.yield("unlocked"))
			}
			return
		}
		if recv, ok := onceDo(v.X); ok {
			c.used = true
			c.funcLits(v.X)
			pre = append(pre, &ast.ExprStmt{X: rtCall("BeforeLock", addrOf(recv), boolLit(true), c.site("once"))})
			post = append(post, &ast.ExprStmt{X: rtCall("AfterUnlock", addrOf(recv), boolLit(true))})
			return
		}
	}
	// simple statements: ExprStmt, AssignStmt, SendStmt, DeclStmt, IncDecStmt ...
	switch st.(type) {
	case *ast.ExprStmt, *ast.AssignStmt, *ast.SendStmt, *ast.DeclStmt, *ast.IncDecStmt:
		o := scan(st)
		c.funcLits(st)
		c.rewriteCalls(st)
		switch {
		case o.recv || o.send:
			pre = append(pre, c.yield("chan"))
			post = append(post, c.yield("chandone"))
		case o.closeCall:
			// close wakes every waiter; the closing goroutine can be preempted right after it
			pre = append(pre, c.yield("close"))
			post = append(post, c.yield("closed"))
		case o.waitCall:
			post = append(post, c.yield("waited"))
		case o.atomicCall:
			pre = append(pre, c.yield("atomic"))
		}
	}
	return
}

func (c *ctx) goStmt(g *ast.GoStmt) (pre []ast.Stmt, self ast.Stmt, post []ast.Stmt) {
	c.used = true
	call := g.Call
	// instrument a literal's own body first
	if fl, ok := call.Fun.(*ast.FuncLit); ok {
		c.block(fl.Body)
	}
	var setup []ast.Stmt
	// pre-evaluate arguments
	if len(call.Args) > 0 {
		var lhs []ast.Expr
		for i := range call.Args {
			lhs = append(lhs, ast.NewIdent(fmt.Sprintf("_za%d", i)))
		}
		setup = append(setup, &ast.AssignStmt{Lhs: lhs, Tok: token.DEFINE, Rhs: append([]ast.Expr{}, call.Args...)})
		for i := range call.Args {
			call.Args[i] = ast.NewIdent(fmt.Sprintf("_za%d", i))
		}
		if call.Ellipsis != token.NoPos {
			c.problemf(g.Pos(), "go statement with variadic spread")
		}
	}
	tid := ast.NewIdent("_zt")
	setup = append(setup, &ast.AssignStmt{Lhs: []ast.Expr{tid}, Tok: token.DEFINE, Rhs: []ast.Expr{rtCall("Spawn", c.site("go"))}})
	body := &ast.BlockStmt{List: []ast.Stmt{
		&ast.ExprStmt{X: rtCall("Begin", tid)},
		&ast.DeferStmt{Call: rtCall("End")},
		&ast.ExprStmt{X: call},
	}}
	g.Call = &ast.CallExpr{Fun: &ast.FuncLit{Type: &ast.FuncType{Params: &ast.FieldList{}}, Body: body}}
	setup = append(setup, g)
	return nil, &ast.BlockStmt{List: setup}, nil
}

func addImport(f *ast.File) {
	spec := &ast.ImportSpec{Name: ast.NewIdent("zsimrt"), Path: &ast.BasicLit{Kind: token.STRING, Value: strconv.Quote(rtImport)}}
	decl := &ast.GenDecl{Tok: token.IMPORT, Specs: []ast.Spec{spec}}
	f.Decls = append([]ast.Decl{decl}, f.Decls...)
}

func main() {
	if len(os.Args) < 2 {
		fmt.Fprintln(os.Stderr, "usage: instr <root> [report]")
		os.Exit(2)
	}
	root := os.Args[1]
	var allSites, problems []string
	nfiles := 0
	err := filepath.Walk(root, func(path string, info os.FileInfo, err error) error {
		if err != nil {
			return err
		}
		rel, _ := filepath.Rel(root, path)
		if info.IsDir() {
			base := filepath.Base(path)
			if rel != "." && (strings.HasPrefix(base, ".") || base == "zsimrt" || base == "cmd" || base == "doc" || base == "testdata") {
				return filepath.SkipDir
			}
			return nil
		}
		if !strings.HasSuffix(path, ".go") || strings.HasSuffix(path, "_test.go") || strings.HasSuffix(path, ".pb.go") {
			return nil
		}
		fset := token.NewFileSet()
		f, err := parser.ParseFile(fset, path, nil, parser.ParseComments)
		if err != nil {
			return err
		}
		c := &ctx{fset: fset, pkg: filepath.ToSlash(filepath.Dir(rel)), counts: map[string]int{}, file: rel}
		if c.pkg == "." {
			c.pkg = "p2p"
		}
		for _, d := range f.Decls {
			fd, ok := d.(*ast.FuncDecl)
			if !ok || fd.Body == nil {
				if gd, ok := d.(*ast.GenDecl); ok {
					c.fn = "init"
					c.funcLits(gd)
				}
				continue
			}
			c.fn = fd.Name.Name
			if fd.Recv != nil && len(fd.Recv.List) == 1 {
				c.fn = recvName(fd.Recv.List[0].Type) + "." + fd.Name.Name
			}
			c.block(fd.Body)
		}
		problems = append(problems, c.problem...)
		if !c.used {
			return nil
		}
		addImport(f)
		var buf bytes.Buffer
		if err := format.Node(&buf, fset, f); err != nil {
			return fmt.Errorf("%s: %v", path, err)
		}
		allSites = append(allSites, c.sites...)
		nfiles++
		return os.WriteFile(path, buf.Bytes(), 0o644)
	})
	if err != nil {
		fmt.Fprintln(os.Stderr, "instr:", err)
		os.Exit(2)
	}
	sort.Strings(allSites)
	if len(os.Args) > 2 {
		var b strings.Builder
		fmt.Fprintf(&b, "files=%d sites=%d\n", nfiles, len(allSites))
		for _, p := range problems {
			fmt.Fprintf(&b, "PROBLEM %s\n", p)
		}
		for _, s := range allSites {
			fmt.Fprintln(&b, s)
		}
		os.WriteFile(os.Args[2], []byte(b.String()), 0o644)
	}
	for _, p := range problems {
		fmt.Fprintln(os.Stderr, "instr: PROBLEM", p)
	}
}

func recvName(e ast.Expr) string {
	switch v := e.(type) {
	case *ast.StarExpr:
		return recvName(v.X)
	case *ast.Ident:
		return v.Name
	case *ast.IndexExpr:
		return recvName(v.X)
	case *ast.IndexListExpr:
		return recvName(v.X)
	}
	return "?"
}
