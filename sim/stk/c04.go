package stk

import (
	"bytes"
	"context"
	"fmt"
	"strings"
	"time"

	"go.brendoncarroll.net/p2p/f/x509"
	"go.brendoncarroll.net/p2p/p/p2pke"
	"go.brendoncarroll.net/p2p/zsimrt"

	"verifsim/sess"
	"verifsim/simcore"
	"verifsim/simnet"
)

// SecureStacks: P2PKE-secured stacks (Tier A). QUIC and SSH are Tier B.
var SecureStacks = []string{"p2pke/sim", "p2pke/mem", "frag/p2pke/sim", "mbapp/p2pke/sim", "mux-string/frag/p2pke/sim", "wl/mbapp/p2pke/sim", "p2pke/mapudp/sim"}

// RunC04: honest nodes, a node that is whitelisted out by some receivers, tells
// and asks to wrong-identity addresses, and a packet-level adversary that replays,
// mutates and re-addresses (spoofed transport source) everything it has seen.
func RunC04(st *simcore.Stream, tier_, leg string, logOn bool, res *simcore.Result) {
	spec := leg
	p := drawParams(st, spec)
	p.N = 3 + st.Intn(2)
	p.QueueLen = 32
	// per-run whitelist: a random relation, with full rows/columns now and then
	allow := make([][]bool, p.N)
	for i := range allow {
		allow[i] = make([]bool, p.N)
		for j := range allow[i] {
			allow[i][j] = i == j || st.Bool(3, 4)
		}
	}
	p.Whitelist = func(from, to int) bool { return allow[from][to] }
	w := NewWorld(st, res, logOn, spec, p)
	w.Sim.MaxSteps = 150000
	w.Sim.MaxTime = 2 * time.Hour
	w.Sim.ClockWeight = 1
	w.Sim.ClockQuanta = clockMenu
	setFaults(w, st, true)
	adversary := st.Bool(2, 3)
	res.Cfg = map[string]any{"stack": spec, "nodes": p.N, "whitelist": fmt.Sprint(allow), "packetAdversary": adversary, "faults": fmt.Sprintf("%+v", w.Net.Faults)}

	// packet-level adversary: sees every datagram, re-injects copies
	var seen []*simnet.Pkt
	// the protocol-speaking attacker (only where P2PKE messages are what the simulated
	// network carries): it owns a transport address of its own and no key of any honest node
	speaks := adversary && (strings.HasSuffix(spec, "p2pke/sim") || strings.HasSuffix(spec, "p2pke/mapudp/sim"))
	var atkAddr simnet.Addr
	var toAttacker []*simnet.Pkt
	if adversary {
		w.Net.OnTell = func(pk *simnet.Pkt) {
			cp := *pk
			cp.Data = append([]byte{}, pk.Data...)
			if speaks && pk.Dst == atkAddr {
				toAttacker = append(toAttacker, &cp)
				return
			}
			if len(seen) < 200 {
				seen = append(seen, &cp)
			}
		}
	}
	pubOf := func(i int) x509.PublicKey { return w.Pubs[i] }
	// (node, transport of node): this node has told a wrong identity at that transport address
	wrongIdentityTold := map[[2]int]bool{}

	w.AddrHook = func(ep Endpoint, m Msg) {
		at := ep.Node()
		// who really sent it?
		from := -1
		var sentAt time.Duration
		for _, e := range w.Led.Lookup(m.Payload) {
			if e.To == at || e.To == -1 {
				from, sentAt = e.From, e.CallAt
			}
		}
		if rec := w.asks().byReq[string(m.Payload)]; rec != nil {
			from, sentAt = rec.From, rec.CallAt
		}
		if from < 0 {
			if bytes.HasPrefix(m.Payload, []byte("ATTACKER-DATA")) {
				// made by the attacker, who holds none of the honest keys and completed no handshake honestly
				res.Violate(w.step(), "attacker-message-delivered", "node %d was handed a message made by the attacker, attributed to Src=%q: the sender proved no key in that connection's handshake", at, m.Src).With("stack", spec)
			}
			return // reported by the delivery oracle
		}
		res.Checks++
		// the key looked up from inside the handler, with an already cancelled context
		ctx, cf := context.WithCancel(context.Background())
		cf()
		var key x509.PublicKey
		var err error
		func() {
			defer func() {
				if r := recover(); r != nil {
					res.Violate(w.step(), "lookup-in-handler-panicked", "LookupPublicKey(%q) inside the handler panicked: %v", m.Src, r).With("stack", spec)
					err = fmt.Errorf("panic")
				}
			}()
			key, err = ep.LookupKey(ctx, m.Src)
		}()
		want := pubOf(from)
		switch {
		case err != nil && w.Sim.Now()-sentAt > 10*time.Second:
			// the swarm discards the state of peers that have been silent for a keep-alive
			// period; a message that sat that long between Tell and this handler can
			// outlive it. Attribution is about the key that IS returned.
			res.Probe("lookup-in-handler-failed-after-long-delay")
		case err != nil:
			res.Violate(w.step(), "lookup-in-handler-failed", "node %d: LookupPublicKey(%q) inside the handler failed %v after the message was sent: %v", at, m.Src, w.Sim.Now()-sentAt, err).With("stack", spec).
				With("afterLocalTellToWrongIdentityAtThatTransportAddress", wrongIdentityTold[[2]int{at, from}])
		case !x509.EqualPublicKeys(&key, &want):
			res.Violate(w.step(), "wrong-key-for-source", "node %d: the key looked up for Src=%q is not the key of node %d, which sent the message", at, m.Src, from).With("stack", spec)
		default:
			res.Probe("key-lookup-in-handler-ok")
		}
		// whitelist: a rejected identity never has a message or ask delivered
		if !allow[from][at] {
			res.Violate(w.step(), "whitelisted-out-delivered", "node %d received a message from node %d although its whitelist rejects that identity", at, from).With("stack", spec)
		} else {
			res.Probe("whitelisted-in-delivered")
		}
	}

	w.Sim.Run(func() {
		w.Eps = w.buildAddrStack(spec)
		mtu := w.Eps[0].MTU()
		rctx, rcancel := context.WithCancel(context.Background())
		for _, ep := range w.Eps {
			for r := 0; r < 1+st.Intn(2); r++ {
				zsimrt.Go("recv", func() { w.ReceiverLoop(rctx, ep, 0, st.Intn(2)) })
			}
			if ep.HasAsk() {
				zsimrt.Go("serve", func() { w.ServeLoop(rctx, ep, 0) })
			}
		}
		for _, ep := range w.Eps {
			w.opBegin()
			zsimrt.Go("send", func() {
				defer w.opEnd()
				for k := 0; k < 2+st.Intn(4); k++ {
					to := st.Intn(p.N)
					if to == ep.Node() {
						to = (to + 1) % p.N
					}
					ctx, cf := context.WithTimeout(context.Background(), simcore.Pick(st, 3*time.Second, 20*time.Second))
					n := 12 + st.Intn(60)
					if n > mtu {
						n = mtu
					}
					switch st.Intn(5) {
					case 0: // wrong identity: the transport address of `to`, the identity of somebody else
						good := ep.AddrOf(to)
						at := strings.LastIndex(good, "@")
						if at < 0 {
							// addresses of this stack carry no identity: nothing to get wrong
							w.TellOnce(ctx, ep, to, 0, n)
							cf()
							continue
						}
						other := st.Intn(p.N)
						var id string
						if other == to || st.Bool(1, 3) {
							id = strings.Repeat("A", 43) // a well-formed peer id that is nobody's fingerprint
							other = -1
						} else {
							o := w.Eps[other].LocalAddrs()[0]
							id = o[:strings.LastIndex(o, "@")]
						}
						if at < 0 {
							cf()
							continue
						}
						wrong := id + good[at:]
						if i := strings.Index(good, "@"); i != at {
							// nested identity (mux/frag around p2pke keep the same text form)
							wrong = id + good[i:]
						}
						e := w.Led.New(st, ep.Node(), -1, 0, n) // nobody may receive this
						wrongIdentityTold[[2]int{ep.Node(), to}] = true
						w.opBegin()
						zsimrt.Yield("harness/before-tell")
						e.Err = ep.TellText(ctx, wrong, [][]byte{append([]byte{}, e.Payload...)})
						e.Told = true
						w.opEnd()
						res.Fault("tell-to-wrong-identity")
						wrongIdentityTold[[2]int{ep.Node(), to}] = true
						if e.Err == nil {
							res.Probe("wrong-identity-tell-returned-nil")
						}
					case 1:
						if ep.HasAsk() {
							w.AskOnce(ctx, ep, to, 0, n, mtu)
							break
						}
						fallthrough
					default:
						w.TellOnce(ctx, ep, to, 0, n)
					}
					cf()
				}
			})
		}
		if speaks {
			atkAddr = w.Net.NewNode().LocalAddr()
			res.Cfg["protocolSpeakingAttacker"] = true
		}
		// spliced handshake: the identity claim (key, timestamp, signature) of an honest
		// node's InitHello inside the attacker's own Noise handshake, then data without
		// (or with a worthless) InitDone. Nothing the attacker sends may ever be delivered.
		splice := func() {
			var hello *simnet.Pkt
			for _, pk := range seen {
				if len(pk.Data) > 40 && p2pke.IsInitHello(pk.Data) && (hello == nil || st.Bool(1, 2)) {
					hello = pk
				}
			}
			if hello == nil {
				return
			}
			obs := sess.NewAtk(false)
			if obs.ReadInitHello(hello.Data) != nil || obs.PeerHello == nil {
				return
			}
			ih := obs.PeerHello
			victim := simnet.Addr{N: st.Intn(p.N)}
			a := sess.NewAtk(true)
			n0 := len(toAttacker)
			w.Net.Inject(atkAddr, victim, a.InitHello(ih.KeyX509, ih.TimestampTai64N, ih.Sig, ih.Version))
			res.Fault("adv-spliced-inithello")
			for i := 0; i < 400 && len(toAttacker) == n0; i++ {
				zsimrt.Yield("harness/adversary-wait")
			}
			if len(toAttacker) == n0 {
				return
			}
			if a.ReadRespHello(toAttacker[len(toAttacker)-1].Data) != nil {
				return
			}
			res.Fault("adv-got-resphello")
			switch st.Intn(3) {
			case 0:
				// no InitDone at all
			case 1:
				w.Net.Inject(atkAddr, victim, a.InitDone(ih.Sig)) // the stolen InitHello signature
				res.Fault("adv-initdone-stolen-signature")
			case 2:
				junk := make([]byte, 64)
				st.Bytes(junk)
				w.Net.Inject(atkAddr, victim, a.InitDone(junk))
				res.Fault("adv-initdone-garbage-signature")
			}
			for i := 0; i < 1+st.Intn(3); i++ {
				pt := []byte(fmt.Sprintf("ATTACKER-DATA-%04d-claims-to-be-an-honest-node", i))
				w.Net.Inject(atkAddr, victim, a.Data(uint32(16+i), pt))
				res.Fault("adv-data-under-spliced-handshake")
			}
		}
		if adversary {
			w.opBegin()
			zsimrt.Go("adversary", func() {
				defer w.opEnd()
				for k := 0; k < 10+st.Intn(30); k++ {
					for i := 0; i < 1+st.Intn(20); i++ {
						zsimrt.Yield("harness/adversary-wait")
					}
					if len(seen) == 0 {
						continue
					}
					if speaks && st.Bool(1, 4) {
						splice()
						continue
					}
					pk := seen[st.Intn(len(seen))]
					data := append([]byte{}, pk.Data...)
					src, dst := pk.Src, pk.Dst
					switch st.Intn(5) {
					case 0: // plain replay
						res.Fault("adv-replay")
					case 1: // to another node
						dst = simnet.Addr{N: st.Intn(p.N)}
						res.Fault("adv-cross-feed")
					case 2: // spoofed transport source
						src = simnet.Addr{N: st.Intn(p.N)}
						res.Fault("adv-spoofed-source")
					case 3: // mutated
						if len(data) > 0 {
							data[st.Intn(len(data))] ^= 1 << uint(st.Intn(8))
						}
						res.Fault("adv-bitflip")
					case 4: // reflected
						src, dst = dst, src
						res.Fault("adv-reflect")
					}
					w.Net.Inject(src, dst, data)
				}
			})
		}
		w.WaitQuiet()
		w.Sim.ClockWeight = 0
		rcancel()
		for _, ep := range w.Eps {
			ep.Close()
		}
		w.Finished = true
	})
	fillStats(res, w)
	// entries told to a wrong identity must not have been delivered to anybody
	for _, e := range w.Led.Entries {
		if e.To == -1 && e.Delivered > 0 {
			res.Violate(res.Steps, "delivered-to-wrong-identity", "a message told to an identity that none of the nodes at that transport address holds was delivered").With("stack", spec)
		}
	}
	// C04 decides attribution; content/ask classes are owned by C01/C11
	dropClasses(res, c11Classes...)
	var keep []simcore.Violation
	for _, v := range res.Violations {
		switch v.Class {
		case "payload-not-told", "buffer-changed-in-callback", "sender-buffer-modified", "ask-request-not-asked", "ask-success-without-handler":
			res.Probe("other-property-violation-seen:" + v.Class)
		default:
			keep = append(keep, v)
		}
	}
	res.Violations = keep
	res.Nontrivial = res.Probes["key-lookup-in-handler-ok"] > 0 && len(res.Faults) > 0
	var sample []string
	for _, e := range w.Led.Entries {
		sample = append(sample, fmt.Sprintf("msg %d: %d->%d len=%d err=%v delivered=%d", e.ID, e.From, e.To, len(e.Payload), e.Err, e.Delivered))
	}
	res.Sample = head(sample, 12)
}
