package stk

import (
	"crypto/ed25519"
	"encoding/binary"
	"fmt"
	"runtime"
	"strings"

	"go.brendoncarroll.net/p2p"
	"go.brendoncarroll.net/p2p/f/x509"
	"go.brendoncarroll.net/p2p/p/mbapp"
	"go.brendoncarroll.net/p2p/p/p2pmux"
	"go.brendoncarroll.net/p2p/s/fragswarm"
	"go.brendoncarroll.net/p2p/s/mapswarm"
	"go.brendoncarroll.net/p2p/s/memswarm"
	"go.brendoncarroll.net/p2p/s/multiswarm"
	"go.brendoncarroll.net/p2p/s/p2pkeswarm"
	"go.brendoncarroll.net/p2p/s/quicswarm"
	"go.brendoncarroll.net/p2p/s/sshswarm"
	"go.brendoncarroll.net/p2p/s/udpswarm"
	"go.brendoncarroll.net/p2p/s/wlswarm"
	"golang.org/x/crypto/ssh"

	"verifsim/simnet"
)

type Pub = x509.PublicKey

var reg = x509.DefaultRegistry()

func nodeKey(run uint64, i int) (x509.PrivateKey, x509.PublicKey) {
	seed := make([]byte, 32)
	binary.BigEndian.PutUint64(seed[0:], run)
	binary.BigEndian.PutUint64(seed[24:], uint64(i)+77)
	priv := x509.PrivateKey{Algorithm: x509.Algo_Ed25519, Data: seed}
	pub, err := reg.PublicFromPrivate(&priv)
	if err != nil {
		panic(err)
	}
	return priv, pub
}

// tier is one layer of the stack on every node.
type tier[A p2p.Addr] struct {
	sw  []p2p.Swarm[A]
	sec []p2p.SecureSwarm[A, Pub] // nil when the layer is not secure
	// ask: the layer's constructor hands out an ask-capable swarm (the concrete
	// types often have Ask methods that the returned interface does not expose)
	ask bool
}

func secureTier[A p2p.Addr](xs []p2p.SecureSwarm[A, Pub]) tier[A] {
	t := tier[A]{sec: xs}
	for _, x := range xs {
		t.sw = append(t.sw, x)
	}
	return t
}

// Catalogue is the list of stack specifications; layers are outermost first.
var Catalogue = []string{
	"sim", "mem",
	"frag/sim", "frag/mem",
	"mbapp/sim", "mbapp/mem",
	"mux-string/sim", "mux-varint/mem", "mux-u16/sim", "mux-u32/mem", "mux-u64/sim",
	"askmux-string/mem", "askmux-varint/mbapp/sim",
	"multi/mem+sim", "multi/mbapp/mem+mbapp/sim",
	"map/sim", "map/frag/mem",
	"wl/mbapp/sim", "wl/mem",
	"p2pke/sim", "p2pke/mem", "frag/p2pke/sim", "mux-string/frag/p2pke/sim", "mbapp/p2pke/sim",
	"frag/frag/sim", "mbapp/frag/mem", "mux-varint/mux-string/sim",
}

// Params are the per-run knobs of a stack.
type Params struct {
	N         int // nodes
	InnerMTU  int // MTU of the base transport
	FragMTU   int // MTU announced by fragmenting layers
	QueueLen  int // memswarm queue length
	Workers   int // mbapp workers / GOMAXPROCS seen by constructors
	Channel   any // mux channel for single-channel stacks
	AllowAll  bool
	ManyParts bool                    // lengths biased to the part-count boundaries of the fragmenting layers
	Whitelist func(from, to int) bool // wlswarm / p2pke whitelist by node index
	QuicMTU   int
}

func (w *World) baseSim() tier[simnet.Addr] {
	var xs []p2p.SecureSwarm[simnet.Addr, Pub]
	for i := 0; i < w.P.N; i++ {
		nd := w.Net.NewNode()
		xs = append(xs, simnet.NewSecure[Pub](nd, w.Pubs[i], &w.dirSim))
	}
	return secureTier(xs)
}

func (w *World) baseMem() tier[memswarm.Addr] {
	opts := []memswarm.Option{memswarm.WithQueueLen(w.P.QueueLen), memswarm.WithMTU(w.P.InnerMTU)}
	if w.MemTransform != nil {
		opts = append(opts, memswarm.WithTellTransform(w.MemTransform))
	}
	realm := memswarm.NewSecureRealm[Pub](opts...)
	var xs []p2p.SecureSwarm[memswarm.Addr, Pub]
	for i := 0; i < w.P.N; i++ {
		xs = append(xs, realm.NewSwarm(w.Pubs[i]))
	}
	t := secureTier(xs)
	t.ask = true
	return t
}

// baseUDP: the real UDP swarm on loopback sockets (Tier B only: real clock, real kernel).
func (w *World) baseUDP() tier[udpswarm.Addr] {
	var out tier[udpswarm.Addr]
	for i := 0; i < w.P.N; i++ {
		laddr := w.udpListen
		if laddr == "" {
			laddr = "127.0.0.1:0"
		}
		s, err := udpswarm.New(laddr)
		if err != nil {
			panic(err)
		}
		out.sw = append(out.sw, s)
	}
	return out
}

// baseSSH: the real SSH swarm on loopback TCP sockets (Tier B only). Its public key type is
// ssh.PublicKey, so the harness treats it as an ask-capable swarm without key lookups; the
// identity is the fingerprint in the address.
func (w *World) baseSSH() tier[sshswarm.Addr] {
	var out tier[sshswarm.Addr]
	for i := 0; i < w.P.N; i++ {
		signer, err := ssh.NewSignerFromKey(ed25519.NewKeyFromSeed(w.Keys[i].Data[:32]))
		if err != nil {
			panic(err)
		}
		s, err := sshswarm.New("127.0.0.1:0", signer)
		if err != nil {
			panic(err)
		}
		out.sw = append(out.sw, s)
	}
	out.ask = true
	return out
}

func fragL[A p2p.Addr](w *World, t tier[A]) tier[A] {
	if t.sec != nil {
		var xs []p2p.SecureSwarm[A, Pub]
		for _, s := range t.sec {
			xs = append(xs, fragswarm.NewSecure[A, Pub](s, w.P.FragMTU))
		}
		return secureTier(xs)
	}
	var out tier[A]
	for _, s := range t.sw {
		out.sw = append(out.sw, fragswarm.New[A](s, w.P.FragMTU))
	}
	return out
}

func mbappL[A p2p.Addr](w *World, t tier[A]) tier[A] {
	if t.sec == nil {
		panic("mbapp needs a secure swarm beneath")
	}
	var xs []p2p.SecureSwarm[A, Pub]
	for _, s := range t.sec {
		xs = append(xs, mbapp.New[A, Pub](s, w.P.FragMTU, mbapp.WithNumWorkers(w.P.Workers)))
	}
	t2 := secureTier(xs)
	t2.ask = true
	return t2
}

// muxOpen opens the given channels on every node and returns one tier per channel.
func muxOpen[A p2p.Addr](w *World, t tier[A], kind string, ask bool, chans []any) []tier[A] {
	out := make([]tier[A], len(chans))
	for i := range t.sw {
		var open func(c any) (p2p.Swarm[A], p2p.SecureSwarm[A, Pub])
		switch {
		case kind == "string" && ask && t.sec != nil:
			m := p2pmux.NewStringSecureAskMux[A, Pub](t.sec[i].(p2p.SecureAskSwarm[A, Pub]))
			open = func(c any) (p2p.Swarm[A], p2p.SecureSwarm[A, Pub]) { s := m.Open(c.(string)); return s, s }
		case kind == "string" && ask:
			m := p2pmux.NewStringAskMux[A](t.sw[i].(p2p.AskSwarm[A]))
			open = func(c any) (p2p.Swarm[A], p2p.SecureSwarm[A, Pub]) { return m.Open(c.(string)), nil }
		case kind == "string" && t.sec != nil:
			m := p2pmux.NewStringSecureMux[A, Pub](t.sec[i])
			open = func(c any) (p2p.Swarm[A], p2p.SecureSwarm[A, Pub]) { s := m.Open(c.(string)); return s, s }
		case kind == "string":
			m := p2pmux.NewStringMux[A](t.sw[i])
			open = func(c any) (p2p.Swarm[A], p2p.SecureSwarm[A, Pub]) { return m.Open(c.(string)), nil }
		case kind == "varint" && ask && t.sec != nil:
			m := p2pmux.NewVarintSecureAskMux[A, Pub](t.sw[i])
			open = func(c any) (p2p.Swarm[A], p2p.SecureSwarm[A, Pub]) { s := m.Open(c.(uint64)); return s, s }
		case kind == "varint" && ask:
			m := p2pmux.NewVarintAskMux[A](t.sw[i])
			open = func(c any) (p2p.Swarm[A], p2p.SecureSwarm[A, Pub]) { return m.Open(c.(uint64)), nil }
		case kind == "varint" && t.sec != nil:
			m := p2pmux.NewVarintSecureMux[A, Pub](t.sw[i])
			open = func(c any) (p2p.Swarm[A], p2p.SecureSwarm[A, Pub]) { s := m.Open(c.(uint64)); return s, s }
		case kind == "varint":
			m := p2pmux.NewVarintMux[A](t.sw[i])
			open = func(c any) (p2p.Swarm[A], p2p.SecureSwarm[A, Pub]) { return m.Open(c.(uint64)), nil }
		case kind == "u16" && ask:
			m := p2pmux.NewUint16AskMux[A](t.sw[i])
			open = func(c any) (p2p.Swarm[A], p2p.SecureSwarm[A, Pub]) { return m.Open(c.(uint16)), nil }
		case kind == "u16" && t.sec != nil:
			m := p2pmux.NewUint16SecureMux[A, Pub](t.sw[i])
			open = func(c any) (p2p.Swarm[A], p2p.SecureSwarm[A, Pub]) { s := m.Open(c.(uint16)); return s, s }
		case kind == "u16":
			m := p2pmux.NewUint16Mux[A](t.sw[i])
			open = func(c any) (p2p.Swarm[A], p2p.SecureSwarm[A, Pub]) { return m.Open(c.(uint16)), nil }
		case kind == "u32" && ask:
			m := p2pmux.NewUint32AskMux[A](t.sw[i])
			open = func(c any) (p2p.Swarm[A], p2p.SecureSwarm[A, Pub]) { return m.Open(c.(uint32)), nil }
		case kind == "u32":
			m := p2pmux.NewUint32Mux[A](t.sw[i])
			open = func(c any) (p2p.Swarm[A], p2p.SecureSwarm[A, Pub]) { return m.Open(c.(uint32)), nil }
		case kind == "u64" && ask:
			m := p2pmux.NewUint64AskMux[A](t.sw[i])
			open = func(c any) (p2p.Swarm[A], p2p.SecureSwarm[A, Pub]) { return m.Open(c.(uint64)), nil }
		case kind == "u64" && t.sec != nil:
			m := p2pmux.NewUint64SecureMux[A, Pub](t.sw[i])
			open = func(c any) (p2p.Swarm[A], p2p.SecureSwarm[A, Pub]) { s := m.Open(c.(uint64)); return s, s }
		case kind == "u64":
			m := p2pmux.NewUint64Mux[A](t.sw[i])
			open = func(c any) (p2p.Swarm[A], p2p.SecureSwarm[A, Pub]) { return m.Open(c.(uint64)), nil }
		default:
			panic("unknown mux kind " + kind)
		}
		for ci, c := range chans {
			if w.ChanOpenOn != nil && !w.ChanOpenOn(ci, i) {
				// channel deliberately not open on this node
				out[ci].sw = append(out[ci].sw, nil)
				if out[ci].sec != nil || t.sec != nil {
					out[ci].sec = append(out[ci].sec, nil)
				}
				continue
			}
			sw, sec := open(c)
			out[ci].sw = append(out[ci].sw, sw)
			if sec != nil {
				out[ci].sec = append(out[ci].sec, sec)
			}
		}
	}
	for ci := range out {
		if len(out[ci].sec) != len(out[ci].sw) {
			out[ci].sec = nil
		}
		out[ci].ask = ask
	}
	return out
}

func defaultChan(kind string, c any) any {
	if c != nil {
		return c
	}
	switch kind {
	case "string":
		return "chan-A"
	case "u16":
		return uint16(7)
	case "u32":
		return uint32(7)
	}
	return uint64(7)
}

// mapped is the upper address type of mapswarm stacks.
type mapped struct{ N int }

func (m mapped) MarshalText() ([]byte, error) { return []byte(fmt.Sprintf("node-%d", m.N)), nil }
func (m mapped) String() string               { return fmt.Sprintf("node-%d", m.N) }

func parseMapped(x []byte) (mapped, error) {
	var n int
	if _, err := fmt.Sscanf(string(x), "node-%d", &n); err != nil || fmt.Sprintf("node-%d", n) != string(x) {
		return mapped{}, fmt.Errorf("bad mapped address %q", x)
	}
	return mapped{N: n}, nil
}

func mapL[A p2p.Addr](w *World, t tier[A]) tier[mapped] {
	// the mapping is by position of the node's first local address
	lower := make([]A, len(t.sw))
	index := map[string]int{}
	for i, s := range t.sw {
		lower[i] = s.LocalAddrs()[0]
		index[text(lower[i])] = i
	}
	down := func(m mapped) A {
		if m.N >= 0 && m.N < len(lower) {
			return lower[m.N]
		}
		return lower[0]
	}
	up := func(a A) mapped {
		if i, ok := index[text(a)]; ok {
			return mapped{N: i}
		}
		return mapped{N: -1}
	}
	var out tier[mapped]
	if t.sec != nil {
		var xs []p2p.SecureSwarm[mapped, Pub]
		for _, s := range t.sec {
			xs = append(xs, mapswarm.NewSecure[mapped, A, Pub](s, down, up, parseMapped))
		}
		return secureTier(xs)
	}
	for _, s := range t.sw {
		out.sw = append(out.sw, mapswarm.New[mapped, A](s, down, up, parseMapped))
	}
	return out
}

func wlL[A p2p.Addr](w *World, t tier[A]) tier[A] {
	if t.sec == nil {
		panic("wlswarm needs a secure swarm beneath")
	}
	addrs := make([]string, len(t.sw))
	for i, s := range t.sw {
		addrs[i] = text(s.LocalAddrs()[0])
	}
	var xs []p2p.SecureSwarm[A, Pub]
	askOut := t.ask
	for i, s := range t.sec {
		me := i
		allow := func(a A) bool {
			if w.P.Whitelist == nil {
				return true
			}
			ta := text(a)
			for j, x := range addrs {
				if x == ta {
					return w.P.Whitelist(j, me)
				}
			}
			return false
		}
		if sa, ok := s.(p2p.SecureAskSwarm[A, Pub]); ok && t.ask {
			xs = append(xs, wlswarm.WrapSecureAsk[A, Pub](sa, allow))
		} else {
			askOut = false
			xs = append(xs, wlswarm.WrapSecure[A, Pub](s, allow))
		}
	}
	t3 := secureTier(xs)
	t3.ask = askOut
	return t3
}

func p2pkeL[A p2p.Addr](w *World, t tier[A]) tier[p2pkeswarm.Addr[A]] {
	var xs []p2p.SecureSwarm[p2pkeswarm.Addr[A], Pub]
	ids := make([]p2p.PeerID, len(t.sw))
	for i := range t.sw {
		ids[i] = p2pkeswarm.DefaultFingerprinter(&w.Pubs[i])
	}
	for i, s := range t.sw {
		me := i
		var opts []p2pkeswarm.Option[A]
		if w.P.Whitelist != nil {
			opts = append(opts, p2pkeswarm.WithWhitelist[A](func(a p2pkeswarm.Addr[A]) bool {
				for j, id := range ids {
					if id == a.ID {
						return w.P.Whitelist(j, me)
					}
				}
				return false
			}))
		}
		x := p2pkeswarm.New[A](s, w.Keys[i], opts...)
		w.KE = append(w.KE, x)
		xs = append(xs, x)
	}
	return secureTier(xs)
}

// quicL: the QUIC swarm (real quic-go, TLS 1.3 with the node keys) over any datagram tier.
// quic-go's own goroutines are not instrumented: they run freely between the scheduler's
// quiescent points (Tier B: application-level outcomes replay, packet traces do not).
func quicL[A p2p.Addr](w *World, t tier[A]) tier[quicswarm.Addr[A]] {
	var xs []p2p.SecureSwarm[quicswarm.Addr[A], Pub]
	ids := make([]p2p.PeerID, len(t.sw))
	for i := range t.sw {
		ids[i] = quicswarm.DefaultFingerprinter(w.Pubs[i])
	}
	mtu := w.P.QuicMTU
	if mtu == 0 {
		mtu = 1 << 16
	}
	for i, s := range t.sw {
		me := i
		opts := []quicswarm.Option[A]{quicswarm.WithMTU[A](mtu)}
		if w.P.Whitelist != nil {
			opts = append(opts, quicswarm.WithWhilelist[A](func(a p2p.Addr) bool {
				qa, ok := a.(quicswarm.Addr[A])
				if !ok {
					return false
				}
				for j, id := range ids {
					if id == qa.ID {
						return w.P.Whitelist(j, me)
					}
				}
				return false
			}))
		}
		x, err := quicswarm.New[A](s, w.Keys[i], opts...)
		if err != nil {
			panic(err)
		}
		xs = append(xs, x)
	}
	t2 := secureTier(xs)
	t2.ask = true
	return t2
}

func multiL[A, B p2p.Addr](w *World, ta tier[A], tb tier[B]) tier[multiswarm.Addr] {
	ask := ta.ask && tb.ask
	for i := range ta.sw {
		if _, ok := ta.sw[i].(p2p.SecureAskSwarm[A, Pub]); !ok {
			ask = false
		}
		if _, ok := tb.sw[i].(p2p.SecureAskSwarm[B, Pub]); !ok {
			ask = false
		}
	}
	var out tier[multiswarm.Addr]
	if ta.sec != nil && tb.sec != nil {
		var xs []p2p.SecureSwarm[multiswarm.Addr, Pub]
		for i := range ta.sw {
			if ask {
				xs = append(xs, multiswarm.NewSecureAsk[Pub](map[string]multiswarm.DynSecureAskSwarm[Pub]{
					"ta": multiswarm.WrapSecureAskSwarm[A, Pub](ta.sw[i].(p2p.SecureAskSwarm[A, Pub])),
					"tb": multiswarm.WrapSecureAskSwarm[B, Pub](tb.sw[i].(p2p.SecureAskSwarm[B, Pub])),
				}))
				out.ask = true
			} else {
				xs = append(xs, multiswarm.NewSecure[Pub](map[string]multiswarm.DynSecureSwarm[Pub]{
					"ta": multiswarm.WrapSecureSwarm[A, Pub](ta.sec[i]),
					"tb": multiswarm.WrapSecureSwarm[B, Pub](tb.sec[i]),
				}))
			}
		}
		t4 := secureTier(xs)
		t4.ask = out.ask
		return t4
	}
	for i := range ta.sw {
		out.sw = append(out.sw, multiswarm.New(map[string]multiswarm.DynSwarm{
			"ta": multiswarm.WrapSwarm[A](ta.sw[i]),
			"tb": multiswarm.WrapSwarm[B](tb.sw[i]),
		}))
	}
	return out
}

// above applies the layers (outermost first in spec, so processed from the end)
// that do not change the address type.
func above[A p2p.Addr](w *World, spec []string, t tier[A]) []Endpoint {
	for len(spec) > 0 {
		l := spec[len(spec)-1]
		spec = spec[:len(spec)-1]
		switch {
		case l == "frag":
			t = fragL(w, t)
		case l == "mbapp":
			t = mbappL(w, t)
		case l == "wl":
			t = wlL(w, t)
		case strings.HasPrefix(l, "mux-"):
			kind := strings.TrimPrefix(l, "mux-")
			var c any
			if len(spec) == 0 {
				c = w.P.Channel // the per-run channel id applies to the outermost layer
			}
			t = muxOpen(w, t, kind, false, []any{defaultChan(kind, c)})[0]
		case strings.HasPrefix(l, "askmux-"):
			kind := strings.TrimPrefix(l, "askmux-")
			var c any
			if len(spec) == 0 {
				c = w.P.Channel
			}
			t = muxOpen(w, t, kind, true, []any{defaultChan(kind, c)})[0]
		case l == "map":
			return above(w, spec, mapL(w, t))
		case l == "mapudp":
			return above(w, spec, mapUDPL(w, t))
		case l == "mapssh":
			return above(w, spec, mapSSHL(w, t))
		default:
			panic("unknown layer " + l)
		}
	}
	return cluster(t.sw, t.ask)
}

// aboveKE is `above` for the layers under which a p2pke layer may still occur.
func below[A p2p.Addr](w *World, spec []string, t tier[A]) []Endpoint {
	for i := len(spec) - 1; i >= 0; i-- {
		if spec[i] == "p2pke" {
			// apply what is beneath p2pke first (address type A is kept)
			inner := spec[i+1:]
			for len(inner) > 0 {
				l := inner[len(inner)-1]
				inner = inner[:len(inner)-1]
				switch l {
				case "frag":
					t = fragL(w, t)
				case "mbapp":
					t = mbappL(w, t)
				default:
					panic("layer " + l + " beneath p2pke is not in the catalogue")
				}
			}
			return above(w, spec[:i], p2pkeL(w, t))
		}
		if spec[i] == "quic" {
			if i != len(spec)-1 {
				panic("quic must sit directly on the base")
			}
			return above(w, spec[:i], quicL(w, t))
		}
	}
	return above(w, spec, t)
}

// Build constructs the stack `spec` on w.P.N nodes.
func (w *World) Build(spec string) []Endpoint {
	prev := runtime.GOMAXPROCS(w.P.Workers)
	defer runtime.GOMAXPROCS(prev)
	parts := strings.Split(spec, "/")
	if parts[0] == "multi" {
		// multi/<stack a>+<stack b> with bases mem and sim
		rest := strings.Join(parts[1:], "/")
		ab := strings.Split(rest, "+")
		ta := w.typedMem(strings.Split(ab[0], "/"))
		tb := w.typedSim(strings.Split(ab[1], "/"))
		mt := multiL(w, ta, tb)
		return cluster(mt.sw, mt.ask)
	}
	base := parts[len(parts)-1]
	layers := parts[:len(parts)-1]
	switch base {
	case "sim":
		return below(w, layers, w.baseSim())
	case "mem":
		return below(w, layers, w.baseMem())
	case "udp":
		return below(w, layers, w.baseUDP())
	case "udp6":
		// dual-stack sockets: datagrams from IPv4 senders arrive with IPv4-mapped sources
		w.udpListen = "[::]:0"
		return below(w, layers, w.baseUDP())
	case "ssh":
		return below(w, layers, w.baseSSH())
	}
	panic("unknown base " + base)
}

// typedMem / typedSim build address-type-preserving stacks for multiswarm.
func (w *World) typedMem(parts []string) tier[memswarm.Addr] {
	t := w.baseMem()
	return sameType(w, parts[:len(parts)-1], t)
}

func (w *World) typedSim(parts []string) tier[simnet.Addr] {
	t := w.baseSim()
	return sameType(w, parts[:len(parts)-1], t)
}

func sameType[A p2p.Addr](w *World, spec []string, t tier[A]) tier[A] {
	for len(spec) > 0 {
		l := spec[len(spec)-1]
		spec = spec[:len(spec)-1]
		switch l {
		case "frag":
			t = fragL(w, t)
		case "mbapp":
			t = mbappL(w, t)
		default:
			panic("layer " + l + " not supported inside multiswarm")
		}
	}
	return t
}
