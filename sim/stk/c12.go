package stk

import (
	"context"
	"fmt"
	"sort"
	"strings"
	"time"

	"go.brendoncarroll.net/p2p/zsimrt"

	"verifsim/simcore"
)

type blockedCall struct {
	Kind     string // receive | serve
	Task     string
	Node     int
	Late     bool // started after Close had returned
	Call     int
	Ret      int
	Returned bool
	Err      error
	Cbs      []int // steps at which callbacks started
}

// RunC12: tasks blocked in Receive / ServeAsk with non-expiring contexts, traffic
// in flight, one or two closers (sometimes closing twice, sometimes concurrently),
// then new calls on the closed swarm. Finally every node is closed and the
// goroutines started by the stack must be gone.
func RunC12(st *simcore.Stream, tier, leg string, logOn bool, res *simcore.Result) {
	spec := leg
	p := drawParams(st, spec)
	w := NewWorld(st, res, logOn, spec, p)
	w.Sim.MaxSteps = 60000
	w.Sim.MaxTime = 3 * time.Hour
	w.Sim.ClockWeight = 1
	w.Sim.ClockQuanta = clockMenu
	setFaults(w, st, w.HasKE())
	nRecv := st.Intn(4)
	nServe := st.Intn(4)
	nClosers := 1 + st.Intn(2)
	twice := st.Bool(1, 3)
	traffic := st.Bool(2, 3)
	closeDelay := st.Intn(80)
	res.Cfg = map[string]any{"stack": spec, "nodes": p.N, "blockedReceivers": nRecv, "blockedServers": nServe, "closers": nClosers, "closeTwice": twice, "traffic": traffic,
		"workers": p.Workers, "faults": fmt.Sprintf("%+v", w.Net.Faults)}

	var calls []*blockedCall
	victim := 0
	closeRet := -1    // step at which the first Close returned
	snapshotAt := -1  // step of the quiescent point right after it
	wantSnap := false // set by the closer, consumed by OnStep
	stillWaiting := map[string]bool{}
	var builtTasks []string
	var afterCloseActivity map[string]int
	watchFrom := -1
	closing, closingSince := 0, -1 // Close calls that have not returned

	w.Sim.OnRelease = func(id, site string) {
		if watchFrom >= 0 && (strings.HasPrefix(site, "p/") || strings.HasPrefix(site, "s/") || strings.HasPrefix(site, "p2p")) {
			afterCloseActivity[site]++
		}
	}
	w.Sim.OnStep = func() {
		if wantSnap {
			wantSnap = false
			snapshotAt = w.step()
			for _, ti := range w.Sim.Tasks() {
				// not runnable: really blocked, or parked on a condition that does not hold
				if !ti.Done && (ti.Blocked || (ti.Parked && ti.Cond)) {
					stillWaiting[ti.ID] = true
				}
			}
		}
	}

	receive := func(ep Endpoint, late bool, kind string) *blockedCall {
		c := &blockedCall{Kind: kind, Task: zsimrt.Self(), Node: ep.Node(), Late: late, Ret: -1}
		calls = append(calls, c)
		zsimrt.Yield("harness/before-blocking-call")
		c.Call = w.step()
		if kind == "serve" {
			c.Err = ep.ServeAsk(context.Background(), func(ctx context.Context, resp []byte, m Msg) int {
				c.Cbs = append(c.Cbs, w.step())
				return w.onAsk(ep, 0, resp, m)
			})
		} else {
			c.Err = ep.Receive(context.Background(), func(m Msg) {
				c.Cbs = append(c.Cbs, w.step())
				w.OnDeliver(ep.Node(), 0, m)
			})
		}
		c.Ret, c.Returned = w.step(), true
		return c
	}

	w.Sim.Run(func() {
		w.Eps = w.Build(spec)
		for _, ti := range w.Sim.Tasks() {
			if ti.ID != "0" {
				builtTasks = append(builtTasks, ti.ID)
			}
		}
		victim = st.Intn(p.N)
		vep := w.Eps[victim]
		mtu := vep.MTU()
		octx, ocancel := context.WithCancel(context.Background())
		for i, ep := range w.Eps {
			if i == victim {
				continue
			}
			zsimrt.Go("other-recv", func() { w.ReceiverLoop(octx, ep, 0, 0) })
			if ep.HasAsk() {
				zsimrt.Go("other-serve", func() { w.ServeLoop(octx, ep, 0) })
			}
		}
		for r := 0; r < nRecv; r++ {
			zsimrt.Go("blocked-recv", func() {
				// keep receiving until an error: each call blocks with a context that never expires
				for {
					if c := receive(vep, false, "receive"); c.Err != nil {
						return
					}
				}
			})
		}
		if vep.HasAsk() {
			for s := 0; s < nServe; s++ {
				zsimrt.Go("blocked-serve", func() {
					for {
						if c := receive(vep, false, "serve"); c.Err != nil {
							return
						}
					}
				})
			}
		}
		if traffic {
			for i, ep := range w.Eps {
				if i == victim {
					continue
				}
				w.opBegin()
				// some senders make their FIRST contact with the victim just about when Close runs
				// (a handshake or a first fragment in flight inside the closing swarm's workers)
				late := -1
				if st.Bool(1, 2) {
					late = closeDelay - 6 + st.Intn(12)
				}
				zsimrt.Go("send", func() {
					defer w.opEnd()
					for i := 0; i < late; i++ {
						zsimrt.Yield("harness/first-contact-wait")
					}
					for k := 0; k < 1+st.Intn(4); k++ {
						ctx, cf := context.WithTimeout(context.Background(), time.Minute)
						if ep.HasAsk() && st.Bool(1, 3) {
							w.AskOnce(ctx, ep, victim, 0, 12+st.Intn(30), mtu)
						} else {
							w.TellOnce(ctx, ep, victim, 0, w.pickLen(mtu))
						}
						cf()
					}
				})
			}
		}
		for c := 0; c < nClosers; c++ {
			w.opBegin()
			d := closeDelay + st.Intn(10)
			zsimrt.Go("closer", func() {
				defer w.opEnd()
				for i := 0; i < d; i++ {
					zsimrt.Yield("harness/close-wait")
				}
				res.Fault("close")
				closing++
				closingSince = w.step()
				vep.Close()
				closing--
				if closeRet < 0 {
					closeRet = w.step()
					wantSnap = true
				}
				zsimrt.Yield("harness/after-close")
				if twice {
					res.Fault("close-again")
					closing++
					closingSince = w.step()
					vep.Close()
					closing--
				}
			})
		}
		zsimrt.WaitUntil("harness/wait-closed", func() bool { return closeRet >= 0 && snapshotAt >= 0 })
		// calls made after Close has returned
		for k := 0; k < 1+st.Intn(2); k++ {
			w.opBegin()
			zsimrt.Go("late-recv", func() { defer w.opEnd(); receive(vep, true, "receive") })
			if vep.HasAsk() {
				w.opBegin()
				zsimrt.Go("late-serve", func() { defer w.opEnd(); receive(vep, true, "serve") })
			}
		}
		w.WaitQuiet()
		zsimrt.Sleep(time.Second)
		w.WaitQuiet()
		// ---- judgement of the victim, one simulated second after the quiescent point ----
		for _, c := range calls {
			res.Checks++
			what := map[string]string{"receive": "Receive", "serve": "ServeAsk"}[c.Kind]
			switch {
			case c.Call == 0:
				// never got to run
			case !c.Returned && c.Late:
				res.Violate(w.step(), "late-call-blocked", "%s called after Close had returned is still blocked one simulated second after quiescence", what).With("stack", spec).With("kind", c.Kind)
			case !c.Returned:
				res.Violate(w.step(), "blocked-after-close", "%s (blocked since step %d, context never expires) has not returned one simulated second after the quiescent point following Close (returned at step %d)", what, c.Call, closeRet).With("stack", spec).With("kind", c.Kind)
			case c.Returned && c.Err == nil && len(c.Cbs) == 0:
				// "reporting success": a nil return means one message was handed to the callback
				res.Violate(w.step(), "success-without-message", "%s (called at step %d, Close returned at step %d) returned nil although no message was handed to its callback", what, c.Call, closeRet).With("stack", spec).With("kind", c.Kind)
			case c.Err == nil && c.Call > closeRet:
				res.Violate(w.step(), "success-after-close", "%s called at step %d, after Close returned at step %d, reported success", what, c.Call, closeRet).With("stack", spec).With("kind", c.Kind).With("callbacks", len(c.Cbs))
			}
		}
		// no hand-off may commit after Close has returned: a task that was still
		// waiting at the quiescent point right after Close returned must never run a callback
		for _, c := range calls {
			for _, cb := range c.Cbs {
				res.Checks++
				if cb > snapshotAt && (stillWaiting[c.Task] || c.Call > closeRet) {
					res.Violate(cb, "delivery-after-close", "a %s callback ran at step %d on a task that was still waiting when Close returned (step %d)", c.Kind, cb, closeRet).With("stack", spec).With("kind", c.Kind)
				}
			}
		}
		// ---- close everything and look for goroutines that were not released ----
		ocancel()
		for _, ep := range w.Eps {
			closing++
			closingSince = w.step()
			ep.Close()
			closing--
		}
		w.WaitQuiet()
		w.Sim.ClockWeight = 0
		zsimrt.Sleep(time.Second)
		w.WaitQuiet()
		watchFrom = w.step()
		afterCloseActivity = map[string]int{}
		// let a simulated minute pass: nothing of the closed stacks may still be running
		zsimrt.Sleep(time.Minute)
		w.WaitQuiet()
		w.Finished = true
	})
	fillStats(res, w)
	dropClasses(res, c11Classes...)
	if w.Sim.Stats.HitStepCap {
		// which tasks kept running?
		busy := map[string]int{}
		for _, ti := range w.Sim.Tasks() {
			if !ti.Done && ti.Parked && !ti.Cond {
				busy[ti.Site]++
			}
		}
		res.Violate(res.Steps, "does-not-quiesce", "step cap hit: tasks keep becoming runnable after Close (sites %v)", keysOf(busy)).With("stack", spec)
		return
	}
	if !w.Finished {
		res.Checks++
		runnable := false
		for _, ti := range w.Sim.Tasks() {
			if !ti.Done && ti.Parked && !ti.Cond && !ti.WantsLk {
				// a task that only waits to be scheduled: the run was cut by a cap, it is not stuck
				runnable = true
			}
		}
		if closing > 0 && runnable {
			res.Probe("cut-by-cap-during-close")
		}
		if closing > 0 && !runnable {
			// the run ended at the simulated-time cap (hours) with a Close call still in progress
			// and nothing that could still run
			var stuck []string
			for _, ti := range w.Sim.Tasks() {
				if !ti.Done && (ti.Blocked || ti.Parked) && !strings.HasPrefix(ti.Site, "harness/") {
					stuck = append(stuck, ti.Site)
				}
			}
			sort.Strings(stuck)
			res.Violate(res.Steps, "close-never-returns", "Close (called at step %d) had not returned when the run ended after %v of simulated time with nothing left to run; tasks are stuck at %v", closingSince, w.Sim.Now(), head(uniq(stuck), 8)).With("stack", spec).With("sites", head(uniq(stuck), 8))
		}
		return
	}
	if !strings.Contains(spec, "mux") {
		built := map[string]bool{}
		for _, id := range builtTasks {
			built[id] = true
		}
		var leaked []string
		for _, ti := range w.Sim.Tasks() {
			if ti.Done || ti.ID == "0" {
				continue
			}
			anc := false
			for id := range built {
				if ti.ID == id || strings.HasPrefix(ti.ID, id+".") {
					anc = true
				}
			}
			if anc {
				leaked = append(leaked, ti.ID+"@"+ti.Site)
			}
		}
		res.Checks++
		if len(leaked) > 0 {
			sort.Strings(leaked)
			sites := map[string]bool{}
			for _, l := range leaked {
				sites[l[strings.Index(l, "@")+1:]] = true
			}
			res.Violate(res.Steps, "goroutines-not-released", "%d goroutines started by the stack are still alive a simulated minute after every swarm was closed: %v", len(leaked), head(leaked, 6)).With("stack", spec).With("sites", keysOf2(sites))
		}
	}
	res.Checks++
	if len(afterCloseActivity) > 0 && !strings.Contains(spec, "mux") {
		n := 0
		for _, v := range afterCloseActivity {
			n += v
		}
		res.Violate(res.Steps, "activity-after-close", "library code ran %d scheduling steps during the simulated minute that followed one second after every swarm had been closed (sites %v)", n, head(keysOf(afterCloseActivity), 5)).With("stack", spec).With("sites", head(keysOf(afterCloseActivity), 5))
	}
	nblocked := 0
	for _, c := range calls {
		if !c.Late && c.Call > 0 && c.Call < closeRet {
			nblocked++
		}
	}
	res.ProbeN("calls-blocked-at-close", nblocked)
	res.Nontrivial = nblocked > 0 && w.Sim.Stats.MultiRunnable > 0
	var sample []string
	for _, c := range calls {
		sample = append(sample, fmt.Sprintf("%s %s node=%d late=%v call=%d ret=%d err=%v callbacks=%v (close returned at %d)", c.Task, c.Kind, c.Node, c.Late, c.Call, c.Ret, c.Err, c.Cbs, closeRet))
	}
	res.Sample = head(sample, 12)
}

func keysOf(m map[string]int) []string {
	var ks []string
	for k := range m {
		ks = append(ks, k)
	}
	sort.Strings(ks)
	return ks
}

func keysOf2(m map[string]bool) []string {
	var ks []string
	for k := range m {
		ks = append(ks, k)
	}
	sort.Strings(ks)
	return ks
}

func uniq(xs []string) []string {
	var out []string
	for i, x := range xs {
		if i == 0 || x != xs[i-1] {
			out = append(out, x)
		}
	}
	return out
}
