package stk

import (
	"bytes"
	"context"
	"encoding/binary"
	"fmt"
	"math"
	"time"
	"verifsim/simcore"

	"go.brendoncarroll.net/p2p"
	"go.brendoncarroll.net/p2p/zsimrt"
)

// AskRec is the ledger record of one Ask.
type AskRec struct {
	ID       int
	From, To int
	Chan     int
	Req      []byte
	RespLen  int  // what the handler is told to produce
	Negative bool // the handler returns a negative value (NegVal)
	NegVal   int
	BufLen   int // size of the asker's response buffer

	Call, Ret int
	CallAt    time.Duration
	Returned  bool
	Err       error
	N         int
	Got       []byte
	Deadline  time.Time
	HasDL     bool

	Served      int      // handler invocations for this request
	HandlerResp [][]byte // response produced by each invocation (nil for negative)
	HandlerRet  []int
	WrongSrc    string
}

type askLedger struct {
	recs  []*AskRec
	byReq map[string]*AskRec
}

func (w *World) asks() *askLedger {
	if w.askLed == nil {
		w.askLed = &askLedger{byReq: map[string]*AskRec{}}
	}
	return w.askLed
}

// respFor builds the unique response of invocation inv of ask id by server node.
func respFor(id, server, inv, n int) []byte {
	b := make([]byte, n)
	x := uint64(id)*0x9E3779B97F4A7C15 + uint64(server)*0xBF58476D1CE4E5B9 + uint64(inv)*0x94D049BB133111EB + 1
	for i := range b {
		x ^= x << 13
		x ^= x >> 7
		x ^= x << 17
		b[i] = byte(x >> 32)
	}
	if n >= 8 {
		b[0] = 'R'
		binary.BigEndian.PutUint32(b[1:], uint32(id))
		b[5], b[6], b[7] = byte(server), byte(inv), byte(inv>>8)
	}
	return b
}

// ServeLoop serves asks on ep until ctx ends or the swarm closes.
func (w *World) ServeLoop(ctx context.Context, ep Endpoint, ch int) {
	for {
		err := ep.ServeAsk(ctx, func(ctx context.Context, resp []byte, m Msg) int {
			return w.onAsk(ep, ch, resp, m)
		})
		if err != nil {
			return
		}
		zsimrt.Yield("harness/serve-loop")
	}
}

func (w *World) onAsk(ep Endpoint, ch int, resp []byte, m Msg) int {
	res := w.Res
	res.Checks++
	if len(m.Payload) == 0 && w.EmptyAskHook != nil {
		w.EmptyAskHook(ep, ch)
		return 0
	}
	rec := w.asks().byReq[string(m.Payload)]
	if rec == nil {
		res.Violate(w.step(), "ask-request-not-asked", "node %d: handler saw a %d byte request nobody asked: %s", ep.Node(), len(m.Payload), w.Led.Diagnose(m.Payload)).With("stack", w.Spec)
		return -1
	}
	if rec.To != ep.Node() {
		res.Violate(w.step(), "ask-served-by-wrong-node", "ask %d was addressed to node %d but node %d's handler saw it", rec.ID, rec.To, ep.Node()).With("stack", w.Spec)
	}
	if rec.Chan != ch {
		res.Violate(w.step(), "ask-served-on-wrong-channel", "ask %d was asked on channel %d but the handler of channel %d saw it", rec.ID, rec.Chan, ch).With("stack", w.Spec)
	}
	if !w.srcOK(rec.From, m.Src) {
		rec.WrongSrc = m.Src
		res.Violate(w.step(), "ask-wrong-source-address", "handler of ask %d (from node %d) saw Src=%q, not one of the asker's addresses %v", rec.ID, rec.From, m.Src, w.Eps[rec.From].LocalAddrs()).With("stack", w.Spec)
	}
	if w.AddrHook != nil {
		w.AddrHook(ep, m)
	}
	rec.Served++
	inv := rec.Served
	res.Probe("ask-served")
	snap := append([]byte{}, m.Payload...)
	for i, k := 0, w.St.Intn(3); i < k; i++ {
		zsimrt.Yield("harness/in-handler")
	}
	if !bytes.Equal(snap, m.Payload) {
		res.Violate(w.step(), "buffer-changed-in-callback", "node %d: the request changed while its handler was running", ep.Node()).With("stack", w.Spec)
	}
	if rec.Negative {
		rec.HandlerResp = append(rec.HandlerResp, nil)
		rec.HandlerRet = append(rec.HandlerRet, rec.NegVal)
		return rec.NegVal
	}
	n := rec.RespLen
	if n > len(resp) {
		n = len(resp)
	}
	r := respFor(rec.ID, ep.Node(), inv, n)
	copy(resp, r)
	rec.HandlerResp = append(rec.HandlerResp, r)
	rec.HandlerRet = append(rec.HandlerRet, n)
	return n
}

// AskOnce performs one ledger Ask and evaluates the per-ask clauses of C11.
func (w *World) AskOnce(ctx context.Context, ep Endpoint, to, ch, reqLen, mtu int) *AskRec {
	st := w.St
	if reqLen < 12 {
		reqLen = 12 // requests are unique and self-describing
	}
	e := w.Led.New(st, ep.Node(), to, ch, reqLen)
	e.Payload[0] = 'A'
	delete(w.Led.byPayload, string(append([]byte{'L'}, e.Payload[1:]...)))
	rec := &AskRec{ID: e.ID, From: ep.Node(), To: to, Chan: ch, Req: e.Payload}
	// response size around the buffer size and around the MTU
	switch st.Intn(6) {
	case 0:
		rec.RespLen = 0
	case 1:
		rec.RespLen = 8 + st.Intn(40)
	case 2:
		rec.RespLen = mtu
	case 3:
		rec.RespLen = mtu / 2
	default:
		rec.RespLen = 8 + st.Intn(200)
	}
	if rec.RespLen > mtu {
		rec.RespLen = mtu
	}
	if rec.RespLen > 100000 {
		rec.RespLen = 100000
	}
	rec.Negative = w.AskFaults && st.Bool(1, 6)
	if rec.Negative {
		// every negative value is a failure, not only -1
		rec.NegVal = simcore.Pick(st, -1, -1, -2, -3, -255, -256, -257, -512, -65536, math.MinInt32, math.MinInt)
	}
	switch {
	case w.AskFaults && st.Bool(1, 5) && rec.RespLen > 0:
		rec.BufLen = st.Intn(rec.RespLen) // too small
	case st.Bool(1, 3):
		rec.BufLen = rec.RespLen // exact
	default:
		rec.BufLen = rec.RespLen + 1 + st.Intn(64)
	}
	if dl, ok := ctx.Deadline(); ok {
		rec.Deadline, rec.HasDL = dl, true
	}
	al := w.asks()
	al.recs = append(al.recs, rec)
	al.byReq[string(rec.Req)] = rec
	req := append([]byte{}, rec.Req...)
	cut := st.Intn(len(req) + 1)
	vec := p2p.IOVec{req[:cut], req[cut:]}
	buf := make([]byte, rec.BufLen)
	for i := range buf {
		buf[i] = 0xCC
	}
	w.opBegin()
	zsimrt.Yield("harness/before-ask")
	rec.Call = w.step()
	rec.CallAt = w.Sim.Now()
	n, err := ep.Ask(ctx, buf, to, vec)
	rec.Ret, rec.Returned, rec.N, rec.Err = w.step(), true, n, err
	w.opEnd()
	res := w.Res
	res.Checks++
	if !bytes.Equal(req, rec.Req) {
		res.Violate(w.step(), "sender-buffer-modified", "Ask %d modified the caller's request buffers", rec.ID).With("stack", w.Spec)
	}
	for i := range req {
		req[i] = 0xEE
	}
	if err != nil {
		res.Probe("ask-error")
		return rec
	}
	res.Probe("ask-ok")
	if n < 0 || n > len(buf) {
		res.Violate(w.step(), "ask-bad-length", "Ask %d returned n=%d with a %d byte buffer and a nil error", rec.ID, n, len(buf)).With("stack", w.Spec)
		return rec
	}
	rec.Got = append([]byte{}, buf[:n]...)
	// a success must carry exactly the bytes one handler invocation for THIS request produced
	switch {
	case rec.Served == 0:
		res.Violate(w.step(), "ask-success-without-handler", "Ask %d to node %d returned (n=%d, nil) but no handler ever saw the request", rec.ID, to, n).With("stack", w.Spec).With("n", n)
	default:
		match, truncated, allNeg := false, false, true
		for i, hr := range rec.HandlerResp {
			if rec.HandlerRet[i] >= 0 {
				allNeg = false
				if bytes.Equal(hr, rec.Got) {
					match = true
				} else if len(rec.Got) < len(hr) && bytes.Equal(hr[:len(rec.Got)], rec.Got) {
					truncated = true
				}
			}
		}
		switch {
		case match:
			res.Probe("ask-answer-exact")
		case allNeg:
			res.Violate(w.step(), "ask-success-after-handler-failure", "Ask %d returned (n=%d, nil) although its handler returned a negative value", rec.ID, n).With("stack", w.Spec)
		case truncated:
			res.Violate(w.step(), "ask-truncated-success", "Ask %d returned n=%d bytes and a nil error although its handler produced %d bytes (buffer %d): a truncated success", rec.ID, n, rec.HandlerRet[0], rec.BufLen).With("stack", w.Spec)
		default:
			// is it a byte-wise blend of the outputs of several invocations for this
			// very request (the request was duplicated and served more than once, and
			// the parts of the replies were combined)?
			blend := rec.Served >= 2
			for j := 0; j < len(rec.Got) && blend; j++ {
				ok := false
				for i, hr := range rec.HandlerResp {
					if rec.HandlerRet[i] >= 0 && len(hr) == len(rec.Got) && hr[j] == rec.Got[j] {
						ok = true
					}
				}
				blend = ok
			}
			res.Violate(w.step(), "ask-wrong-answer", "Ask %d returned %d bytes that are not what its handler produced for this request: %s", rec.ID, n, w.describeAnswer(rec)).With("stack", w.Spec).
				With("blendOfDuplicateInvocations", blend).
				With("networkDuplicatesDatagrams", w.UsesSim() && w.Net.Faults.Dup > 0 && !w.Net.FaultsOff)
		}
	}
	return rec
}

func (w *World) describeAnswer(rec *AskRec) string {
	for _, o := range w.asks().recs {
		if o == rec {
			continue
		}
		for _, hr := range o.HandlerResp {
			if hr != nil && bytes.Equal(hr, rec.Got) && len(hr) > 0 {
				return fmt.Sprintf("it is the answer to ask %d", o.ID)
			}
		}
	}
	for i, hr := range rec.HandlerResp {
		if hr != nil && len(hr) == len(rec.Got) {
			first, last, nd := -1, -1, 0
			for j := range hr {
				if hr[j] != rec.Got[j] {
					if first < 0 {
						first = j
					}
					last = j
					nd++
				}
			}
			return fmt.Sprintf("same length as the output of handler invocation %d but %d bytes differ (first at %d, last at %d)", i+1, nd, first, last)
		}
	}
	var lens []int
	for _, hr := range rec.HandlerResp {
		lens = append(lens, len(hr))
	}
	prefixOf := -1
	for i, hr := range rec.HandlerResp {
		if len(hr) >= len(rec.Got) && bytes.Equal(hr[:len(rec.Got)], rec.Got) {
			prefixOf = i
		}
	}
	return fmt.Sprintf("matches no handler output (handler invocations returned %v with outputs of %v bytes; asker buffer %d, response length planned %d; got is a prefix of invocation %d's output)", rec.HandlerRet, lens, rec.BufLen, rec.RespLen, prefixOf+1)
}

// overdueAsks is evaluated at quiescent points: an Ask whose context deadline has
// passed must have returned.
func (w *World) overdueAsks() {
	if w.askLed == nil {
		return
	}
	now := time.Now()
	for _, rec := range w.askLed.recs {
		if rec.Call > 0 && !rec.Returned && rec.HasDL && !rec.overdueSeen() && now.After(rec.Deadline) {
			rec.N = -999
			w.Res.Violate(w.step(), "ask-overdue", "Ask %d has not returned at a quiescent point %v after its context deadline", rec.ID, now.Sub(rec.Deadline)).With("stack", w.Spec)
		}
	}
}

func (r *AskRec) overdueSeen() bool { return r.N == -999 }
