package stk

import (
	"bytes"
	"context"
	"crypto/ed25519"
	"errors"
	"fmt"
	"hash/fnv"
	"io"
	"net"
	"runtime"
	"sort"
	"strings"
	"sync"
	"time"

	"go.brendoncarroll.net/p2p"
	"go.brendoncarroll.net/p2p/f/x509"
	"go.brendoncarroll.net/p2p/s/memswarm"

	"golang.org/x/crypto/ssh"
	"verifsim/simcore"
)

// Tier B (DESIGN.md §4): stacks that contain third-party goroutines the scheduler
// cannot park (quic-go). No parking scheduler and no bubble here: quic-go v0.37
// relies on the pre-1.23 timer channels, which testing/synctest does not support
// (a connection's timer goroutine spins inside the runtime's stopTimer in a
// bubble). All hooks are no-ops, goroutines run freely on the real clock, crypto
// randomness is seeded, the transport is the real in-memory swarm with seeded
// loss. The WORKLOAD is what is deterministic: the root issues one operation at a
// time, drawn from the choice stream, and waits for it to return and for the
// deliveries it caused before the next one. What
// replays is the application-level history, not the packet trace; the oracles
// therefore compare data only (never timing), and liveness is demanded only on a
// loss-free transport with generous simulated deadlines.
//
// One workload serves several properties; the caller keeps the classes of its own.

type tbTell struct {
	id, from, to int
	payload      []byte
	err          error
	returned     bool
	wrongID      bool // addressed to an identity the destination transport address does not hold
	lenClass     string
	afterClose   bool // destination had been closed before the call
	delivered    int
	control      *tbTell // a small Tell on the same link sent right after this one failed to arrive
}

type tbAsk struct {
	id, from, to int
	req          []byte
	respLen      int
	bufLen       int
	neg          int // negative handler result (0 = none)
	n            int
	err          error
	returned     bool
	got          []byte
	served       int
	handlerOut   [][]byte
	lenClass     string
	slow         bool // the handler lingers, so that asks overlap
}

type tbWorld struct {
	mu       sync.Mutex
	res      *simcore.Result
	spec     string
	eps      []Endpoint
	pubs     []x509.PublicKey
	allow    [][]bool
	tells    map[string]*tbTell
	asks     map[string]*tbAsk
	closed   []bool // Close has returned on node i
	lossy    bool
	addrSeen map[string]bool
	atk      map[string]string // payload sent by the SSH authentication attacker -> fingerprint of the only key it holds
}

func (w *tbWorld) violate(class, format string, args ...any) *simcore.Violation {
	return w.res.Violate(0, class, format, args...).With("stack", w.spec)
}

func tbHeader(kind byte, id, from, to int) []byte {
	return []byte(fmt.Sprintf("%c%05d:%d>%d:", kind, id, from, to))
}

func tbFill(st *simcore.Stream, kind byte, id, from, to, n int) []byte {
	h := tbHeader(kind, id, from, to)
	if n < len(h) {
		n = len(h)
	}
	b := make([]byte, n)
	st.Bytes(b)
	copy(b, h)
	return b
}

// RunTierB runs one seeded sequential workload on a Tier B stack.
func RunTierB(prop string, st *simcore.Stream, tier, leg string, logOn bool, res *simcore.Result) {
	spec := leg
	p := Params{N: 2 + st.Intn(2), InnerMTU: simcore.Pick(st, 1350, 1500, 9000), QuicMTU: simcore.Pick(st, 1200, 4000, 20000), QueueLen: 256, Workers: 2}
	allow := make([][]bool, p.N)
	canWhitelist := strings.Contains(spec, "quic") || strings.Contains(spec, "p2pke")
	onMem := strings.HasSuffix(spec, "mem")
	whitelisted := st.Bool(1, 2) && canWhitelist
	for i := range allow {
		allow[i] = make([]bool, p.N)
		for j := range allow[i] {
			allow[i][j] = i == j || !whitelisted || st.Bool(3, 4)
		}
	}
	if whitelisted {
		p.Whitelist = func(from, to int) bool { return allow[from][to] }
	}
	w0 := NewWorld(st, res, false, spec, p) // the scheduler of this World is never started
	lossRate := 0
	if st.Bool(1, 3) && onMem {
		lossRate = 1 + st.Intn(6) // out of 64 datagrams
	}
	// loss keyed by (seed, link, ordinal of the datagram on that link): not by a shared stream,
	// which free-running goroutines would consume in a different order every time
	var lmu sync.Mutex
	lost := 0
	ord := map[[2]memswarm.Addr]int{}
	quiet := false
	if lossRate > 0 {
		w0.MemTransform = func(m *memswarm.Message) bool {
			lmu.Lock()
			defer lmu.Unlock()
			k := [2]memswarm.Addr{m.Src, m.Dst}
			ord[k]++
			h := fnv.New64a()
			fmt.Fprintf(h, "%d/%v/%v/%d", res.Seed, m.Src, m.Dst, ord[k])
			if !quiet && int(h.Sum64()%64) < lossRate {
				lost++
				return false
			}
			return true
		}
	}
	goroutinesBefore := runtime.NumGoroutine()
	w := &tbWorld{res: res, spec: spec, allow: allow, tells: map[string]*tbTell{}, asks: map[string]*tbAsk{}, closed: make([]bool, p.N), lossy: lossRate > 0, addrSeen: map[string]bool{}}
	w.eps = w0.Build(spec)
	w.pubs = w0.Pubs
	eps := w.eps
	mtu := eps[0].MTU()
	for _, ep := range eps {
		for _, a := range ep.LocalAddrs() {
			w.checkAddrText(ep, a, "local address")
		}
		for j := range eps {
			w.checkAddrText(ep, ep.AddrOf(j), "peer address")
		}
	}
	res.Cfg = map[string]any{"stack": spec, "nodes": p.N, "mtu": mtu, "innerMTU": p.InnerMTU, "lossPer64": lossRate, "whitelist": fmt.Sprint(allow), "tier": "B"}

	rctx, rcancel := context.WithCancel(context.Background())
	var wg sync.WaitGroup
	for _, ep := range eps {
		ep := ep
		for r := 0; r < 2; r++ {
			wg.Add(1)
			go func() {
				defer wg.Done()
				for {
					err := ep.Receive(rctx, func(m Msg) { w.onTell(ep, m) })
					if err != nil {
						w.mu.Lock()
						closed := w.closed[ep.Node()]
						w.mu.Unlock()
						if closed || rctx.Err() != nil {
							return
						}
						time.Sleep(10 * time.Millisecond)
					}
				}
			}()
		}
		if !ep.HasAsk() {
			continue
		}
		wg.Add(1)
		go func() {
			defer wg.Done()
			for {
				err := ep.ServeAsk(rctx, func(ctx context.Context, resp []byte, m Msg) int { return w.onAsk(ep, resp, m) })
				if err != nil {
					w.mu.Lock()
					closed := w.closed[ep.Node()]
					w.mu.Unlock()
					if closed || rctx.Err() != nil {
						return
					}
					time.Sleep(10 * time.Millisecond)
				}
			}
		}()
	}
	// settle: wait (real time) until no delivery has happened for a little while
	settle := func() {
		last := -1
		for i := 0; i < 200; i++ {
			time.Sleep(3 * time.Millisecond)
			w.mu.Lock()
			n := res.Probes["delivered"]
			w.mu.Unlock()
			if n == last && i >= 2 {
				return
			}
			last = n
		}
	}
	// run one operation to completion (or to its simulated deadline)
	do := func(d time.Duration, f func(ctx context.Context)) {
		ctx, cf := context.WithTimeout(context.Background(), d)
		done := make(chan struct{})
		go func() { defer close(done); f(ctx) }()
		<-done
		cf()
		settle()
	}
	lens := func() (int, string) {
		switch st.Intn(7) {
		case 0:
			return 0, "empty"
		case 1:
			return mtu, "mtu"
		case 2:
			return mtu + 1 + st.Intn(40), "above-mtu"
		case 3:
			return mtu - 1, "mtu-1"
		case 4:
			return mtu / 2, "half"
		default:
			return 16 + st.Intn(200), "small"
		}
	}
	nOps := 6 + st.Intn(14)
	closedNode := -1
	nextID := 0
	for op := 0; op < nOps; op++ {
		from := st.Intn(p.N)
		to := st.Intn(p.N)
		if to == from {
			to = (to + 1) % p.N
		}
		if from == closedNode {
			continue
		}
		nextID++
		id := nextID
		switch st.Intn(11) {
		case 10: // bytes from nobody in particular: raw datagrams / a raw TCP connection towards a node's socket
			la := eps[to].LocalAddrs()[0]
			hostport := la[strings.LastIndex(la, "@")+1:]
			if _, _, err := net.SplitHostPort(hostport); err != nil || spec == "udp" || spec == "udp6" {
				// not a socket address (in-memory swarm); or the bare UDP swarm, where any datagram IS a message
				continue
			}
			junk := func() []byte {
				b := make([]byte, simcore.Pick(st, 0, 1, 4, 5, 20, 64, 300, 1200, 1400))
				st.Bytes(b)
				switch st.Intn(6) {
				case 0: // looks like a QUIC long header (Initial, version 1)
					copy(b, []byte{0xc3, 0, 0, 0, 1, 8})
				case 1: // QUIC version negotiation trigger
					copy(b, []byte{0x80, 0xff, 0xff, 0xff, 0xff})
				case 2: // P2PKE InitHello counter
					copy(b, []byte{0, 0, 0, 0})
				case 3: // P2PKE data counter
					copy(b, []byte{0, 0, 0, 16})
				case 4:
					copy(b, []byte("SSH-2.0-x\r\n"))
				}
				return b
			}
			if spec == "ssh" && to != closedNode && st.Bool(1, 2) {
				// a peer with its own key which interleaves the steps of public-key authentication and names node from's key
				seed := make([]byte, 32)
				st.Bytes(seed)
				payload := make([]byte, 40)
				st.Bytes(payload)
				copy(payload, fmt.Sprintf("ssh-attacker %d:", id))
				victim := ed25519.NewKeyFromSeed(w0.Keys[from].Data[:32]).Public().(ed25519.PublicKey)
				order, ask := st.Intn(4), st.Bool(1, 3)
				a, _ := ssh.NewSignerFromKey(ed25519.NewKeyFromSeed(seed))
				w.mu.Lock()
				if w.atk == nil {
					w.atk = map[string]string{}
				}
				w.atk[string(payload)] = ssh.FingerprintSHA256(a.PublicKey())
				w.mu.Unlock()
				if _, sent := sshAuthAttack(hostport, victim, seed, order, payload, ask); sent {
					res.Fault("ssh-auth-steps-interleaved")
				}
				continue
			}
			if strings.HasSuffix(spec, "ssh") {
				if c, err := net.DialTimeout("tcp", hostport, time.Second); err == nil {
					c.SetDeadline(time.Now().Add(300 * time.Millisecond))
					c.Write([]byte("SSH-2.0-attacker\r\n"))
					for k := 0; k < 1+st.Intn(3); k++ {
						c.Write(junk())
					}
					if st.Bool(1, 2) {
						io.Copy(io.Discard, c)
					}
					c.Close()
				}
			} else if c, err := net.Dial("udp", hostport); err == nil {
				for k := 0; k < 1+st.Intn(6); k++ {
					c.Write(junk())
				}
				c.Close()
			}
			res.Fault("raw-bytes-to-socket")
			time.Sleep(5 * time.Millisecond)
		case 9: // a Receive (or ServeAsk) whose context is cancelled while it is blocked
			if to == closedNode {
				continue
			}
			serve := eps[to].HasAsk() && st.Bool(1, 2)
			kind := "Receive"
			if serve {
				kind = "ServeAsk"
			}
			cctx, ccancel := context.WithCancel(context.Background())
			ret := make(chan error, 1)
			go func() {
				if serve {
					ret <- eps[to].ServeAsk(cctx, func(ctx context.Context, resp []byte, m Msg) int { return w.onAsk(eps[to], resp, m) })
				} else {
					ret <- eps[to].Receive(cctx, func(m Msg) { w.onTell(eps[to], m) })
				}
			}()
			time.Sleep(time.Duration(1+st.Intn(20)) * time.Millisecond)
			ccancel()
			res.Fault("cancel-blocked-" + kind)
			res.Checks++
			select {
			case err := <-ret:
				// nil: it was handed a message just before the cancellation; otherwise the context's error
				if err != nil && !errors.Is(err, context.Canceled) {
					w.violate("cancelled-call-wrong-error", "%s whose context was cancelled returned %v instead of the context's error", kind, err).With("kind", kind)
				}
			case <-time.After(3 * time.Second):
				w.violate("cancel-not-prompt", "%s was still blocked 3 seconds after its context had been cancelled (no traffic towards that node)", kind).With("kind", kind)
				// unblock it so that the run can go on: one message towards that node
				go func() { <-ret }()
				do(3*time.Second, func(ctx context.Context) {
					eps[from].Tell(ctx, to, p2p.IOVec{[]byte("wake-up for the stuck receiver, not in the ledger")})
				})
			}
		case 8: // several asks from one node to one destination at the same time, with slow handlers
			if !eps[from].HasAsk() {
				continue
			}
			k := 2 + st.Intn(2)
			var burst []*tbAsk
			for i := 0; i < k; i++ {
				nextID++
				n := simcore.Pick(st, 16+st.Intn(200), mtu/2, mtu-1)
				a := &tbAsk{id: nextID, from: from, to: to, req: tbFill(st, 'A', nextID, from, to, n), lenClass: "burst", slow: true}
				a.respLen = simcore.Pick(st, 8+st.Intn(64), mtu/2, 8+st.Intn(300))
				if a.respLen > mtu {
					a.respLen = mtu
				}
				a.bufLen = a.respLen + st.Intn(8)
				w.mu.Lock()
				w.asks[string(a.req)] = a
				w.mu.Unlock()
				burst = append(burst, a)
			}
			do(10*time.Second, func(ctx context.Context) {
				var bw sync.WaitGroup
				for _, a := range burst {
					a := a
					bw.Add(1)
					go func() {
						defer bw.Done()
						buf := bytes.Repeat([]byte{0xCC}, a.bufLen)
						a.n, a.err = eps[from].Ask(ctx, buf, to, p2p.IOVec{append([]byte{}, a.req...)})
						a.returned = true
						if a.err == nil && a.n >= 0 && a.n <= len(buf) {
							a.got = append([]byte{}, buf[:a.n]...)
						}
					}()
				}
				bw.Wait()
			})
			res.Fault("overlapping-asks")
		case 0, 1, 2: // tell
			n, class := lens()
			t := &tbTell{id: id, from: from, to: to, payload: tbFill(st, 'T', id, from, to, n), lenClass: class, afterClose: to == closedNode}
			if class == "empty" {
				t.payload = []byte{}
			}
			w.mu.Lock()
			w.tells[string(t.payload)] = t
			w.mu.Unlock()
			buf := append([]byte{}, t.payload...)
			do(8*time.Second, func(ctx context.Context) {
				cut := 0
				if len(buf) > 0 {
					cut = st.Intn(len(buf) + 1)
				}
				t.err = eps[from].Tell(ctx, to, p2p.IOVec{buf[:cut], buf[cut:]})
				t.returned = true
			})
			// C09 promises no delivery, only that size is never the reason for a refusal. A payload of
			// a boundary size that does not arrive on the loss-free transport while a small control
			// message sent right after it on the same link does, three times over, was dropped for
			// its size. (Without the control, unrelated losses - a dead cached session, a closing
			// peer - would be blamed on the size.)
			if class != "small" && class != "above-mtu" && t.err == nil && !w.lossy && to != closedNode && allow[from][to] {
				for try := 0; try < 3; try++ {
					w.mu.Lock()
					arrived := t.delivered > 0
					w.mu.Unlock()
					if arrived {
						break
					}
					if try > 0 {
						do(8*time.Second, func(ctx context.Context) { eps[from].Tell(ctx, to, p2p.IOVec{buf}) })
					}
					nextID++
					c := &tbTell{id: nextID, from: from, to: to, payload: tbFill(st, 'T', nextID, from, to, 40), lenClass: "control"}
					w.mu.Lock()
					w.tells[string(c.payload)] = c
					w.mu.Unlock()
					do(8*time.Second, func(ctx context.Context) {
						c.err = eps[from].Tell(ctx, to, p2p.IOVec{c.payload})
						c.returned = true
					})
					for i := 0; i < 100; i++ {
						w.mu.Lock()
						ok := c.delivered > 0 || t.delivered > 0
						w.mu.Unlock()
						if ok {
							break
						}
						time.Sleep(10 * time.Millisecond)
					}
					t.control = c
					w.mu.Lock()
					lostControl := c.delivered == 0
					w.mu.Unlock()
					if lostControl {
						t.control = nil // the link itself is not delivering: nothing can be said about size
						break
					}
				}
			}
			if !bytes.Equal(buf, t.payload) {
				w.violate("sender-buffer-modified", "Tell modified the caller's buffers")
			}
			res.Probe("tell-" + class)
		case 3, 4: // ask
			if !eps[from].HasAsk() {
				continue
			}
			n, class := lens()
			a := &tbAsk{id: id, from: from, to: to, req: tbFill(st, 'A', id, from, to, n), lenClass: class}
			a.respLen = simcore.Pick(st, 0, 8+st.Intn(64), mtu, mtu/2, 8+st.Intn(300))
			if a.respLen > mtu {
				a.respLen = mtu
			}
			switch {
			case st.Bool(1, 6):
				a.neg = simcore.Pick(st, -1, -2, -256, -65536)
			}
			switch {
			case st.Bool(1, 5) && a.respLen > 0:
				a.bufLen = st.Intn(a.respLen)
			case st.Bool(1, 3):
				a.bufLen = a.respLen
			default:
				a.bufLen = a.respLen + 1 + st.Intn(64)
			}
			w.mu.Lock()
			w.asks[string(a.req)] = a
			w.mu.Unlock()
			req := append([]byte{}, a.req...)
			buf := bytes.Repeat([]byte{0xCC}, a.bufLen)
			do(8*time.Second, func(ctx context.Context) {
				a.n, a.err = eps[from].Ask(ctx, buf, to, p2p.IOVec{req})
				a.returned = true
			})
			if a.err == nil && a.n >= 0 && a.n <= len(buf) {
				a.got = append([]byte{}, buf[:a.n]...)
			}
			res.Probe("ask-" + class)
			// a request within MTU() that never reaches the handler although a small control
			// request sent right after it on the same link does, twice over: dropped for its size
			w.mu.Lock()
			unserved := a.served == 0
			w.mu.Unlock()
			if class != "small" && class != "above-mtu" && unserved && a.err != nil && !w.lossy && to != closedNode && allow[from][to] {
				again := func(n int, cl string) *tbAsk {
					nextID++
					b := &tbAsk{id: nextID, from: from, to: to, req: tbFill(st, 'A', nextID, from, to, n), lenClass: cl, respLen: 16, bufLen: 64}
					w.mu.Lock()
					w.asks[string(b.req)] = b
					w.mu.Unlock()
					rb := make([]byte, b.bufLen)
					do(8*time.Second, func(ctx context.Context) {
						b.n, b.err = eps[from].Ask(ctx, rb, to, p2p.IOVec{b.req})
						b.returned = true
					})
					if b.err == nil && b.n >= 0 && b.n <= len(rb) {
						b.got = append([]byte{}, rb[:b.n]...)
					}
					return b
				}
				second := again(len(a.req), class+"-retry")
				w.mu.Lock()
				stillUnserved := second.served == 0
				w.mu.Unlock()
				if stillUnserved {
					ctl := again(40, "control")
					w.mu.Lock()
					ctlServed := ctl.served > 0
					w.mu.Unlock()
					res.Checks++
					if ctlServed {
						w.violate("refused-within-mtu", "Ask with a %d byte request (MTU() %d, %s) twice failed (%v) without ever reaching the destination's handler on a loss-free transport, while a small control request sent right after it on the same link was served: the request was dropped for its size", len(a.req), mtu, class, a.err).With("op", "ask").With("silent", true)
					}
				}
			}
		case 5: // tell to an identity that the destination's transport address does not hold
			if p.N < 3 {
				continue
			}
			other := (to + 1) % p.N
			if other == from {
				other = (other + 1) % p.N
			}
			if other == to {
				continue
			}
			real, fake := eps[from].AddrOf(to), eps[from].AddrOf(other)
			ri, fi := strings.LastIndex(real, "@"), strings.LastIndex(fake, "@")
			if ri < 0 || fi < 0 {
				continue
			}
			addr := fake[:fi] + real[ri:] // other's identity at to's transport address
			t := &tbTell{id: id, from: from, to: to, payload: tbFill(st, 'W', id, from, to, 40), wrongID: true}
			w.mu.Lock()
			w.tells[string(t.payload)] = t
			w.mu.Unlock()
			do(5*time.Second, func(ctx context.Context) {
				t.err = eps[from].TellText(ctx, addr, p2p.IOVec{t.payload})
				t.returned = true
			})
			res.Fault("tell-to-wrong-identity")
		case 6: // close one node, once
			if closedNode >= 0 || op < 2 {
				continue
			}
			closedNode = to
			do(20*time.Second, func(ctx context.Context) { eps[to].Close() })
			// (marked closed only at the quiescent point after Close returned: a callback whose
			// hand-over committed before that is not a delivery after Close)
			w.mu.Lock()
			w.closed[to] = true
			w.mu.Unlock()
			res.Fault("node-closed")
			// calls on the closed swarm must fail, not block and not succeed
			for _, kind := range []string{"Receive", "ServeAsk"} {
				kind := kind
				var err error
				ret := false
				do(3*time.Second, func(ctx context.Context) {
					if kind == "Receive" {
						err = eps[to].Receive(ctx, func(Msg) {})
					} else if !eps[to].HasAsk() {
						err = p2p.ErrClosed
					} else {
						err = eps[to].ServeAsk(ctx, func(context.Context, []byte, Msg) int { return 0 })
					}
					ret = true
				})
				res.Checks++
				switch {
				case !ret || errors.Is(err, context.DeadlineExceeded):
					w.violate("late-call-blocked", "%s called after Close had returned blocked until its context expired (3 seconds)", kind).With("kind", kind)
				case err == nil:
					w.violate("success-after-close", "%s called after Close had returned reported success", kind).With("kind", kind)
				}
			}
		case 7: // key lookup outside a handler
			if !eps[from].Secure() {
				continue
			}
			var key x509.PublicKey
			var err error
			do(5*time.Second, func(ctx context.Context) { key, err = eps[from].LookupKey(ctx, eps[from].AddrOf(to)) })
			res.Checks++
			if err == nil && !x509.EqualPublicKeys(&key, &w.pubs[to]) {
				w.violate("wrong-key-for-address", "LookupPublicKey(%s) on node %d returned a key that is not node %d's", eps[from].AddrOf(to), from, to)
			}
		}
		if st.Bool(1, 4) {
			time.Sleep(simcore.Pick(st, time.Millisecond, 20*time.Millisecond, 100*time.Millisecond))
		}
	}
	// ---- wind down ----
	lmu.Lock()
	quiet = true
	lmu.Unlock()
	// a Tell that returned nil on the loss-free transport gets ample (real) time to arrive
	for i := 0; i < 400 && !w.allArrived(closedNode); i++ {
		time.Sleep(10 * time.Millisecond)
	}
	settle()
	w.judge(mtu, closedNode)
	for _, ep := range eps {
		for _, pr := range ep.ObjectProblems() {
			w.violate("address-not-equal-after-round-trip", "node %d: %s", ep.Node(), pr)
		}
	}
	for i, ep := range eps {
		if i != closedNode {
			ep.Close()
			w.mu.Lock()
			w.closed[i] = true
			w.mu.Unlock()
		}
	}
	rcancel()
	wg.Wait()
	// C12: closing releases the goroutines the swarm started. Every node is closed now and the harness'
	// own goroutines have ended: whatever still runs library code a few seconds later was left behind.
	var left []string
	for i := 0; i < 250; i++ {
		left = left[:0]
		if runtime.NumGoroutine() <= goroutinesBefore {
			break
		}
		buf := make([]byte, 1<<20)
		buf = buf[:runtime.Stack(buf, true)]
		for _, g := range strings.Split(string(buf), "\n\n") {
			if !strings.Contains(g, "go.brendoncarroll.net/p2p/") {
				continue
			}
			for _, l := range strings.Split(g, "\n") {
				if strings.HasPrefix(l, "go.brendoncarroll.net/p2p/") {
					left = append(left, l[len("go.brendoncarroll.net/p2p/"):strings.LastIndex(l, "(")])
					break
				}
			}
		}
		if len(left) == 0 {
			break
		}
		time.Sleep(20 * time.Millisecond)
	}
	res.Checks++
	if len(left) > 0 {
		sort.Strings(left)
		w.violate("goroutines-not-released", "%d goroutines running library code are still alive 5 seconds after every swarm of the stack was closed: %v", len(left), head(uniqStrings(left), 6)).With("sites", head(uniqStrings(left), 6))
	}
	if lost > 0 {
		res.FaultN("datagram-lost", lost)
	}
	res.Nontrivial = res.Probes["delivered"] > 0
	res.TraceHash = fmt.Sprintf("%s-%d-%d", spec, res.Seed, res.Probes["delivered"])
	var sample []string
	for _, t := range w.tells {
		sample = append(sample, fmt.Sprintf("tell %d: %d->%d len=%d (%s) err=%v delivered=%d wrongID=%v", t.id, t.from, t.to, len(t.payload), t.lenClass, t.err, t.delivered, t.wrongID))
	}
	for _, a := range w.asks {
		sample = append(sample, fmt.Sprintf("ask %d: %d->%d req=%d (%s) resp=%d buf=%d neg=%d -> n=%d err=%v served=%d", a.id, a.from, a.to, len(a.req), a.lenClass, a.respLen, a.bufLen, a.neg, a.n, a.err, a.served))
	}
	res.Sample = head(sample, 14)
	// keep the classes of the property that asked
	keep := map[string]map[string]bool{
		"C01": {"payload-not-told": true, "delivered-to-wrong-node": true, "wrong-source-address": true, "sender-buffer-modified": true, "buffer-changed-in-callback": true},
		"C04": {"wrong-source-identity": true, "wrong-key-for-source": true, "lookup-in-handler-failed": true, "wrong-key-for-address": true, "whitelisted-out-delivered": true, "delivered-to-wrong-identity": true},
		"C09": {"refused-within-mtu": true, "accepted-above-mtu": true, "not-delivered-within-mtu": true, "delivered-not-intact": true},
		"C11": {"buffer-changed-in-callback": true, "ask-wrong-answer": true, "ask-success-without-handler": true, "ask-success-after-handler-failure": true, "ask-truncated-success": true, "ask-bad-length": true, "ask-request-not-asked": true, "ask-never-returned": true},
		"C08": {},
		"C13": {"cancel-not-prompt": true, "cancelled-call-wrong-error": true},
		"C16": {"address-does-not-parse": true, "address-changes-in-round-trip": true, "address-not-equal-after-round-trip": true},
		"C12": {"goroutines-not-released": true, "late-call-blocked": true, "success-after-close": true, "delivery-after-close": true},
	}[prop]
	var out []simcore.Violation
	for _, v := range res.Violations {
		if keep[v.Class] {
			out = append(out, v)
		} else {
			res.Probe("other-property-violation-seen:" + v.Class)
		}
	}
	res.Violations = out
}

// checkAddrText: an address handed out by a swarm parses back with that swarm to the same text (C16).
func (w *tbWorld) checkAddrText(ep Endpoint, a, where string) {
	key := fmt.Sprintf("%d|%s", ep.Node(), a)
	if w.addrSeen[key] {
		return
	}
	w.addrSeen[key] = true
	w.res.Checks++
	back, err := ep.RoundTrip(a)
	switch {
	case err != nil:
		w.violate("address-does-not-parse", "%s %q handed out by node %d is rejected by the same swarm's ParseAddr: %v", where, a, ep.Node(), err)
	case back != a:
		w.violate("address-changes-in-round-trip", "%s %q of node %d parses and marshals back as %q", where, a, ep.Node(), back)
	default:
		w.res.Probe("address-round-trip-ok")
	}
}

func (w *tbWorld) onTell(ep Endpoint, m Msg) {
	at := ep.Node()
	snap := append([]byte{}, m.Payload...)
	w.mu.Lock()
	defer w.mu.Unlock()
	w.checkAddrText(ep, m.Src, "source address")
	w.checkAddrText(ep, m.Dst, "destination address")
	res := w.res
	res.Checks++
	res.Probe("delivered")
	if w.closed[at] {
		w.violate("delivery-after-close", "node %d's Receive callback was handed a message after Close had returned", at)
	}
	t := w.tells[string(m.Payload)]
	if t == nil && bytes.HasPrefix(m.Payload, []byte("wake-up for the stuck receiver")) {
		return
	}
	if w.attackerSource(at, m) {
		return
	}
	if t == nil {
		w.violate("payload-not-told", "node %d received %d bytes that nobody passed to Tell (%q...)", at, len(m.Payload), trunc24(m.Payload))
		return
	}
	t.delivered++
	if t.wrongID {
		w.violate("delivered-to-wrong-identity", "a message told to an identity that the node at that transport address does not hold was delivered to node %d", at)
		return
	}
	if t.to != at {
		w.violate("delivered-to-wrong-node", "node %d received message %d which was told to node %d", at, t.id, t.to)
	}
	w.checkSource(ep, at, t.from, m.Src, "message")
	if !w.allow[t.from][at] {
		w.violate("whitelisted-out-delivered", "node %d received a message from node %d although its whitelist rejects that identity", at, t.from).With("kind", "tell")
	}
	if !bytes.Equal(snap, m.Payload) {
		w.violate("buffer-changed-in-callback", "the message changed while the callback was running")
	}
}

// attackerSource: a message of the SSH authentication attacker may be delivered (it is a peer with a key
// of its own), but only under the identity of the key it proved it holds.
func (w *tbWorld) attackerSource(at int, m Msg) bool {
	fp, ok := w.atk[string(m.Payload)]
	if !ok {
		return false
	}
	w.res.Probe("attacker-message-arrived")
	if i := strings.Index(m.Src, "@"); i < 0 || m.Src[:i] != fp {
		w.violate("wrong-source-identity", "node %d: a message of a peer that proved possession of key %s only, after offering another node's public key during authentication, arrived with Src=%q", at, fp, m.Src).With("sender", "ssh-auth-attacker")
	}
	return true
}

// checkSource: Src is the address the receiver uses for the sender, and the key
// looked up from inside the handler is the sender's.
func (w *tbWorld) checkSource(ep Endpoint, at, from int, src, what string) {
	want := ep.AddrOf(from)
	if strings.HasSuffix(w.spec, "ssh") {
		// the SSH swarm reports the TCP connection's source port, not the sender's listening port:
		// compare identity and host
		cut := func(a string) string {
			if i := strings.LastIndex(a, ":"); i > 0 {
				return a[:i]
			}
			return a
		}
		if cut(src) == cut(want) {
			src = want
		}
	}
	if src != want {
		wi, si := strings.Index(want, "@"), strings.Index(src, "@")
		if wi > 0 && si > 0 && want[:wi] != src[:si] {
			w.violate("wrong-source-identity", "node %d: %s of node %d arrived with Src=%q, whose identity is not that node's (%q)", at, what, from, src, want)
		} else {
			w.violate("wrong-source-address", "node %d: %s of node %d arrived with Src=%q, expected %q", at, what, from, src, want)
		}
		return
	}
	if !ep.Secure() {
		return
	}
	ctx, cf := context.WithCancel(context.Background())
	cf()
	key, err := ep.LookupKey(ctx, src)
	switch {
	case err != nil:
		w.violate("lookup-in-handler-failed", "node %d: LookupPublicKey(%q) inside the handler failed: %v", at, src, err)
	case !x509.EqualPublicKeys(&key, &w.pubs[from]):
		w.violate("wrong-key-for-source", "node %d: the key looked up for Src=%q is not the key of node %d, which sent it", at, src, from)
	default:
		w.res.Probe("key-lookup-in-handler-ok")
	}
}

func (w *tbWorld) onAsk(ep Endpoint, resp []byte, m Msg) int {
	at := ep.Node()
	w.mu.Lock()
	if a := w.asks[string(m.Payload)]; a != nil && a.slow {
		// linger with the request in hand: it belongs to this handler until it returns
		snap := append([]byte{}, m.Payload...)
		w.mu.Unlock()
		time.Sleep(3 * time.Millisecond)
		w.mu.Lock()
		if !bytes.Equal(snap, m.Payload) {
			w.violate("buffer-changed-in-callback", "node %d: the request of ask %d changed while its handler was running", at, a.id)
			m.Payload = snap
		}
	}
	defer w.mu.Unlock()
	res := w.res
	res.Checks++
	res.Probe("delivered")
	if w.closed[at] {
		w.violate("delivery-after-close", "node %d's ServeAsk callback was handed a request after Close had returned", at)
	}
	if w.attackerSource(at, m) {
		return 0
	}
	a := w.asks[string(m.Payload)]
	if a == nil {
		w.violate("ask-request-not-asked", "node %d: handler saw a %d byte request nobody asked", at, len(m.Payload))
		return -1
	}
	a.served++
	if a.to != at {
		w.violate("delivered-to-wrong-node", "node %d served ask %d which was addressed to node %d", at, a.id, a.to)
	}
	w.checkSource(ep, at, a.from, m.Src, "ask")
	if !w.allow[a.from][at] {
		w.violate("whitelisted-out-delivered", "node %d served an ask of node %d although its whitelist rejects that identity", at, a.from).With("kind", "ask")
	}
	if a.neg != 0 {
		a.handlerOut = append(a.handlerOut, nil)
		return a.neg
	}
	n := a.respLen
	if n > len(resp) {
		n = len(resp)
	}
	out := respFor(a.id, at, a.served, n)
	copy(resp, out)
	a.handlerOut = append(a.handlerOut, out)
	return n
}

// allArrived: every Tell that is owed a delivery has been delivered.
func (w *tbWorld) allArrived(closedNode int) bool {
	w.mu.Lock()
	defer w.mu.Unlock()
	for _, t := range w.tells {
		if !t.wrongID && t.err == nil && t.returned && !w.lossy && !t.afterClose && t.to != closedNode && w.allow[t.from][t.to] && t.delivered == 0 {
			return false
		}
	}
	return true
}

func trunc24(b []byte) []byte {
	if len(b) > 24 {
		return b[:24]
	}
	return b
}

// judge evaluates the per-operation clauses once everything has settled.
func (w *tbWorld) judge(mtu, closedNode int) {
	w.mu.Lock()
	defer w.mu.Unlock()
	res := w.res
	for _, t := range w.tells {
		if t.wrongID {
			continue
		}
		res.Checks++
		n := len(t.payload)
		sizeErr := t.err != nil && (errors.Is(t.err, p2p.ErrMTUExceeded) || strings.Contains(strings.ToLower(t.err.Error()), "mtu") || strings.Contains(t.err.Error(), "too large") || strings.Contains(t.err.Error(), "too big"))
		switch {
		case n > mtu && t.err == nil:
			w.violate("accepted-above-mtu", "Tell of %d bytes returned nil although MTU() is %d", n, mtu).With("op", "tell")
		case n <= mtu && sizeErr:
			w.violate("refused-within-mtu", "Tell of %d bytes was refused for its size although MTU() is %d: %v", n, mtu, t.err).With("op", "tell")
		case n <= mtu && t.err == nil && t.returned && !w.lossy && !t.afterClose && t.to != closedNode && w.allow[t.from][t.to] && t.delivered == 0 && t.control != nil && t.control.delivered > 0:
			w.violate("not-delivered-within-mtu", "Tell of %d bytes (MTU() %d, %s) returned nil three times on a loss-free transport and never arrived, while small control messages sent right after it on the same link did", n, mtu, t.lenClass).With("op", "tell")
		}
		if n > mtu && t.delivered > 0 {
			w.violate("accepted-above-mtu", "a payload of %d bytes was delivered although MTU() is %d", n, mtu).With("op", "tell")
		}
	}
	for _, a := range w.asks {
		res.Checks++
		n := len(a.req)
		if !a.returned {
			w.violate("ask-never-returned", "Ask %d never returned", a.id)
			continue
		}
		sizeErr := a.err != nil && (errors.Is(a.err, p2p.ErrMTUExceeded) || strings.Contains(strings.ToLower(a.err.Error()), "mtu"))
		if n > mtu && (a.err == nil || a.served > 0) {
			w.violate("accepted-above-mtu", "Ask with a %d byte request was served/returned nil although MTU() is %d", n, mtu).With("op", "ask")
		}
		if n <= mtu && sizeErr {
			w.violate("refused-within-mtu", "Ask with a %d byte request was refused for its size although MTU() is %d: %v", n, mtu, a.err).With("op", "ask")
		}
		if a.err != nil {
			res.Probe("ask-error")
			continue
		}
		res.Probe("ask-ok")
		switch {
		case a.n < 0 || a.n > a.bufLen:
			w.violate("ask-bad-length", "Ask %d returned n=%d with a %d byte buffer and a nil error", a.id, a.n, a.bufLen)
		case a.served == 0:
			w.violate("ask-success-without-handler", "Ask %d to node %d returned (n=%d, nil) but no handler ever saw the request", a.id, a.to, a.n)
		case a.neg != 0:
			w.violate("ask-success-after-handler-failure", "Ask %d returned (n=%d, nil) although its handler returned %d", a.id, a.n, a.neg)
		default:
			match, truncated := false, false
			for _, out := range a.handlerOut {
				if bytes.Equal(out, a.got) {
					match = true
				} else if len(a.got) < len(out) && bytes.Equal(out[:len(a.got)], a.got) {
					truncated = true
				}
			}
			switch {
			case match:
				res.Probe("ask-answer-exact")
			case truncated:
				w.violate("ask-truncated-success", "Ask %d returned n=%d bytes and a nil error although its handler produced %d bytes (buffer %d): a truncated success", a.id, a.n, a.respLen, a.bufLen)
			default:
				w.violate("ask-wrong-answer", "Ask %d returned %d bytes that are not what its handler produced for this request", a.id, a.n).With("blendOfDuplicateInvocations", false)
			}
		}
	}
}

var _ = io.EOF

func uniqStrings(xs []string) []string {
	var out []string
	for i, x := range xs {
		if i == 0 || x != xs[i-1] {
			out = append(out, x)
		}
	}
	return out
}
