package stk

import (
	"context"
	"fmt"
	"strings"
	"time"

	"go.brendoncarroll.net/p2p/s/memswarm"
	"go.brendoncarroll.net/p2p/zsimrt"

	"verifsim/simcore"
	"verifsim/simnet"
)

// clockMenu: mostly small advances; the long ones cross the GC / keep-alive / rekey timers.
var clockMenu = []time.Duration{time.Millisecond, time.Millisecond, 10 * time.Millisecond, 50 * time.Millisecond, 300 * time.Millisecond, 300 * time.Millisecond, 3 * time.Second, 20 * time.Second, 70 * time.Second}

// drawParams draws the per-run stack parameters.
func drawParams(st *simcore.Stream, spec string) Params {
	p := Params{N: 2 + st.Intn(3), QueueLen: 1 + st.Intn(16), Workers: 1 + st.Intn(4)}
	switch {
	case strings.Contains(spec, "quic"):
		// QUIC needs datagrams of at least 1200 bytes
		p.InnerMTU = simcore.Pick(st, 1350, 1500, 9000)
		p.QuicMTU = simcore.Pick(st, 1200, 4000, 20000)
	case strings.Contains(spec, "p2pke"):
		// room for the P2PKE handshake messages (~200 bytes) beneath
		p.InnerMTU = simcore.Pick(st, 300, 400, 576, 1280)
	case strings.Contains(spec, "frag") || strings.Contains(spec, "mbapp"):
		p.InnerMTU = simcore.Pick(st, 40, 64, 100, 200, 576)
	default:
		p.InnerMTU = simcore.Pick(st, 32, 64, 200, 1280)
	}
	p.FragMTU = simcore.Pick(st, 100, 300, 1000, 3000)
	if (strings.Contains(spec, "frag") || strings.Contains(spec, "mbapp")) && !strings.Contains(spec, "p2pke") && st.Bool(1, 8) {
		// large logical MTU over a small transport: hundreds of fragments per message
		p.FragMTU = simcore.Pick(st, 7000, 12000, 20000)
		p.InnerMTU = simcore.Pick(st, 40, 64)
		p.ManyParts = true
	}
	return p
}

func setFaults(w *World, st *simcore.Stream, corruptOK bool) {
	// swarm-style: each kind is enabled in about half of the runs
	f := simnet.Faults{}
	if st.Bool(1, 2) {
		f.Drop = 1
	}
	if st.Bool(1, 2) {
		f.Dup = 1
	}
	if st.Bool(1, 2) {
		f.Reorder = 3
	}
	if corruptOK && st.Bool(1, 2) {
		f.Corrupt = 1
	}
	w.Net.Faults = f
	if w.UsesMem() && st.Bool(1, 2) {
		rate := 1 + st.Intn(8)
		w.MemTransform = func(m *memswarm.Message) bool {
			if st.Intn(64) < rate {
				w.Res.Fault("mem-drop")
				return false
			}
			return true
		}
	}
}

// RunC01: concurrent senders and receivers on one stack of the catalogue under
// loss, duplication and reordering; every delivery is checked against the ledger.
func RunC01(st *simcore.Stream, tier, leg string, logOn bool, res *simcore.Result) {
	spec := leg
	p := drawParams(st, spec)
	w := NewWorld(st, res, logOn, spec, p)
	w.Sim.MaxSteps = 40000
	w.Sim.MaxTime = time.Hour
	w.Sim.ClockWeight = 1
	w.Sim.ClockQuanta = clockMenu
	setFaults(w, st, w.HasKE())
	nSend := 1 + st.Intn(3)
	perSend := 1 + st.Intn(4)
	nRecv := 1 + st.Intn(3)
	cbYields := st.Intn(4)
	res.Cfg = map[string]any{"stack": spec, "nodes": p.N, "innerMTU": p.InnerMTU, "fragMTU": p.FragMTU, "queue": p.QueueLen, "workers": p.Workers,
		"senders": nSend, "perSender": perSend, "receivers": nRecv, "faults": fmt.Sprintf("%+v", w.Net.Faults)}

	w.Sim.Run(func() {
		w.Eps = w.Build(spec)
		mtu := w.Eps[0].MTU()
		res.Cfg["mtu"] = mtu
		rctx, rcancel := context.WithCancel(context.Background())
		for _, ep := range w.Eps {
			for r := 0; r < nRecv; r++ {
				zsimrt.Go("recv", func() { w.ReceiverLoop(rctx, ep, 0, cbYields) })
			}
		}
		for _, ep := range w.Eps {
			for s := 0; s < nSend; s++ {
				w.opBegin()
				zsimrt.Go("send", func() {
					defer w.opEnd()
					for k := 0; k < perSend; k++ {
						to := st.Intn(p.N)
						if to == ep.Node() && p.N > 1 && st.Bool(3, 4) {
							to = (to + 1) % p.N
						}
						ctx, cf := context.WithTimeout(context.Background(), 5*time.Minute)
						w.TellOnce(ctx, ep, to, 0, w.pickLen(mtu))
						cf()
					}
				})
			}
		}
		w.WaitQuiet()
		w.Sim.ClockWeight = 0
		rcancel()
		for _, ep := range w.Eps {
			ep.Close()
		}
		w.Finished = true
	})
	fillStats(res, w)
	ndel := res.Probes["delivered"]
	res.Nontrivial = ndel > 0 && len(res.Faults) > 0 && w.Sim.Stats.MultiRunnable > 0
	var sample []string
	for _, e := range w.Led.Entries {
		sample = append(sample, fmt.Sprintf("msg %d: %d->%d len=%d tellErr=%v delivered=%d", e.ID, e.From, e.To, len(e.Payload), e.Err, e.Delivered))
		if len(sample) >= 12 {
			break
		}
	}
	res.Sample = sample
}
