package stk

import (
	"bytes"
	"context"
	"fmt"
	"runtime"
	"strings"
	"time"

	"go.brendoncarroll.net/p2p"
	"go.brendoncarroll.net/p2p/zsimrt"

	"verifsim/simcore"
	"verifsim/simnet"
)

// MuxLegs: multiplexer kind / variant / base.
var MuxLegs = []string{"string/tell/sim", "string/ask/mem", "string/ask/mbapp-sim", "varint/tell/sim", "varint/ask/mem", "u16/tell/sim", "u16/ask/mem", "u32/tell/mem", "u32/ask/mem", "u64/tell/sim", "u64/ask/mbapp-sim", "string/tell/mem", "varint/tell/frag-sim"}

func channelSet(st *simcore.Stream, kind string) []any {
	var pool []any
	switch kind {
	case "string":
		pool = []any{"", "a", "ab", "abc", "\x01a", "\x02ab", "\x00", "chan", "chan-", strings.Repeat("z", 127), strings.Repeat("z", 128), "\x80\x01", "a\x00b",
			// names whose length needs a two-byte prefix, differing in the last byte only
			strings.Repeat("q", 199) + "x", strings.Repeat("q", 199) + "y", strings.Repeat("r", 300) + "a", strings.Repeat("r", 300) + "b"}
	case "varint":
		pool = []any{uint64(0), uint64(1), uint64(127), uint64(128), uint64(129), uint64(0x4081), uint64(1 << 14), uint64(1<<14 + 1), uint64(1 << 32), ^uint64(0), uint64(1 << 63)}
	case "u16":
		pool = []any{uint16(0), uint16(1), uint16(0x0100), uint16(0x0101), uint16(0xffff), uint16(0x7fff), uint16(0xff00)}
	case "u32":
		pool = []any{uint32(0), uint32(1), uint32(0x01000000), uint32(0xffffffff), uint32(0x0000ffff), uint32(0xffff0000)}
	case "u64":
		pool = []any{uint64(0), uint64(1), uint64(1 << 56), ^uint64(0), uint64(0xffffffff), uint64(0xffffffff00000000)}
	}
	n := 2 + st.Intn(4)
	if n > len(pool) {
		n = len(pool)
	}
	// draw n distinct
	var out []any
	used := map[int]bool{}
	for len(out) < n {
		i := st.Intn(len(pool))
		if !used[i] {
			used[i] = true
			out = append(out, pool[i])
		}
	}
	return out
}

// clusterMulti wraps per-channel tiers (with holes where a channel is not open on a node).
func clusterMulti[A p2p.Addr](ts []tier[A], askOK bool) [][]Endpoint {
	n := len(ts[0].sw)
	peers := make([]A, n)
	for i := 0; i < n; i++ {
		for _, t := range ts {
			if t.sw[i] != nil {
				peers[i] = t.sw[i].LocalAddrs()[0]
				break
			}
		}
	}
	out := make([][]Endpoint, len(ts))
	for ci, t := range ts {
		out[ci] = make([]Endpoint, n)
		for i, s := range t.sw {
			if s == nil {
				continue
			}
			e := &ep[A]{node: i, sw: s, peers: &peers}
			if a, ok := s.(p2p.AskSwarm[A]); ok && askOK {
				e.ask = a
			}
			out[ci][i] = e
		}
	}
	return out
}

func buildMux[A p2p.Addr](w *World, t tier[A], kind string, ask bool, chans []any) [][]Endpoint {
	ts := muxOpen(w, t, kind, ask, chans)
	return clusterMulti(ts, ask)
}

// RunC15: concurrent tells and asks on several channels of one multiplexer per
// node; a callback of the swarm opened for channel c may only ever see messages
// told or asked on channel c; frames captured at the transport must be unambiguous.
func RunC15(st *simcore.Stream, tier_, leg string, logOn bool, res *simcore.Result) {
	parts := strings.Split(leg, "/")
	kind, variant, base := parts[0], parts[1], parts[2]
	ask := variant == "ask"
	p := drawParams(st, "mux/"+base)
	p.N = 2 + st.Intn(2)
	p.InnerMTU = simcore.Pick(st, 200, 576, 1280)
	p.FragMTU = 1000
	p.QueueLen = 64
	w := NewWorld(st, res, logOn, "mux-"+leg, p)
	w.Sim.MaxSteps = 80000
	w.Sim.MaxTime = time.Hour
	w.Sim.ClockWeight = 1
	w.Sim.ClockQuanta = clockMenu
	if st.Bool(1, 2) {
		w.Net.Faults = simnet.Faults{Dup: st.Intn(2), Reorder: 2, Drop: st.Intn(2)}
	}
	chans := channelSet(st, kind)
	// some channels are open on one side only
	closedOn := map[[2]int]bool{}
	for ci := range chans {
		if st.Bool(1, 4) {
			closedOn[[2]int{ci, st.Intn(p.N)}] = true
		}
	}
	w.ChanOpenOn = func(ci, node int) bool { return !closedOn[[2]int{ci, node}] }
	var chanNames []string
	for _, c := range chans {
		chanNames = append(chanNames, fmt.Sprintf("%.20q", fmt.Sprint(c)))
	}
	res.Cfg = map[string]any{"mux": kind, "variant": variant, "base": base, "nodes": p.N, "channels": chanNames, "notOpen": len(closedOn), "faults": fmt.Sprintf("%+v", w.Net.Faults)}

	// frames seen at the transport: bytes -> (channel, payload id)
	type frameKey struct {
		ch int
		id int
	}
	frames := map[string]frameKey{}
	emptyAsked, emptySeen := map[[2]int]int{}, map[[2]int]int{} // (channel index, node)
	w.EmptyAskHook = func(ep Endpoint, ch int) { emptySeen[[2]int{ch, ep.Node()}]++ }
	var told []*Entry
	w.Net.OnTell = func(pk *simnet.Pkt) {
		if base != "sim" {
			return
		}
		// attribute the frame to the ledger entry whose payload it ends with
		for _, e := range told {
			if len(e.Payload) >= 12 && bytes.HasSuffix(pk.Data, e.Payload) {
				k := frameKey{e.Chan, e.ID}
				if prev, ok := frames[string(pk.Data)]; ok && prev != k {
					res.Violate(w.step(), "ambiguous-framing", "the same %d frame bytes were produced for (channel %d, message %d) and (channel %d, message %d)", len(pk.Data), prev.ch, prev.id, k.ch, k.id)
				}
				frames[string(pk.Data)] = k
				res.Checks++
				return
			}
		}
	}

	w.Sim.Run(func() {
		prev := runtime.GOMAXPROCS(p.Workers)
		var eps [][]Endpoint
		switch base {
		case "sim":
			eps = buildMux(w, w.baseSim(), kind, ask, chans)
		case "mem":
			eps = buildMux(w, w.baseMem(), kind, ask, chans)
		case "mbapp-sim":
			eps = buildMux(w, mbappL(w, w.baseSim()), kind, ask, chans)
		case "frag-sim":
			eps = buildMux(w, fragL(w, w.baseSim()), kind, ask, chans)
		default:
			panic("unknown base " + base)
		}
		runtime.GOMAXPROCS(prev)
		// World.Eps is used for source/destination address checks: any open channel of a node will do
		w.Eps = make([]Endpoint, p.N)
		for i := 0; i < p.N; i++ {
			for ci := range eps {
				if eps[ci][i] != nil {
					w.Eps[i] = eps[ci][i]
					break
				}
			}
			if w.Eps[i] == nil {
				// no channel open on this node at all: nothing to test in this run
				w.Finished = true
				return
			}
		}
		rctx, rcancel := context.WithCancel(context.Background())
		for ci := range eps {
			for _, e := range eps[ci] {
				if e == nil {
					continue
				}
				zsimrt.Go("recv", func() { w.ReceiverLoop(rctx, e, ci, st.Intn(2)) })
				if e.HasAsk() {
					zsimrt.Go("serve", func() { w.ServeLoop(rctx, e, ci) })
				}
			}
		}
		for ci := range eps {
			for _, e := range eps[ci] {
				if e == nil {
					continue
				}
				w.opBegin()
				zsimrt.Go("send", func() {
					defer w.opEnd()
					mtu := e.MTU()
					for k := 0; k < 1+st.Intn(3); k++ {
						to := st.Intn(p.N)
						if to == e.Node() {
							to = (to + 1) % p.N
						}
						if eps[ci][to] == nil {
							res.Probe("told-to-node-without-channel")
						}
						ctx, cf := context.WithTimeout(context.Background(), time.Minute)
						if e.HasAsk() && mtu >= 0 && st.Bool(1, 8) {
							// an Ask with an empty request: it cannot carry the ledger header, so the oracle
							// is per channel: a handler of channel d sees an empty request only if one was asked on d
							emptyAsked[[2]int{ci, to}]++
							res.Probe("empty-ask")
							e.Ask(ctx, make([]byte, 8), to, p2p.IOVec{})
						} else if e.HasAsk() && mtu >= 64 && st.Bool(1, 2) {
							w.AskOnce(ctx, e, to, ci, 12+st.Intn(40), mtu)
						} else {
							n := 12 + st.Intn(60)
							switch st.Intn(5) {
							case 0:
								n = 0
							case 1:
								n = st.Intn(4)
							}
							if n > mtu {
								n = mtu
							}
							if n < 0 {
								n = 0
							}
							en := w.Led.New(st, e.Node(), to, ci, n)
							if n >= 12 && st.Bool(1, 3) {
								// a payload that itself starts like a channel header
								pre := simcore.Pick(st, []byte{0x01, 'a'}, []byte{0x00}, []byte{0x02, 'a', 'b'}, []byte{0x81, 0x01}, []byte{0, 0, 0, 1}, []byte{0xff, 0xff}, []byte{'x'}, []byte{'y'}, []byte{'z'}, []byte{'a'}, []byte{'b'})
								if len(en.Payload)+len(pre) <= mtu {
									w.Led.Prepend(en, pre)
								}
							}
							told = append(told, en)
							w.TellEntry(ctx, e, en)
						}
						cf()
					}
				})
			}
		}
		w.WaitQuiet()
		w.Sim.ClockWeight = 0
		rcancel()
		for ci := range eps {
			for _, e := range eps[ci] {
				if e != nil {
					e.Close()
				}
			}
		}
		w.Finished = true
	})
	fillStats(res, w)
	dropClasses(res, c11Classes...)
	dropClasses(res, "ask-success-without-handler")
	for k, n := range emptySeen {
		res.Checks++
		if emptyAsked[k] == 0 {
			res.Violate(res.Steps, "delivered-on-wrong-channel", "the ServeAsk handler of channel %d on node %d saw %d empty request(s) although no empty Ask was made on that channel to that node (empty Asks were made on other channels)", k[0], k[1], n).With("stack", leg).With("kind", "empty-ask")
		}
	}
	res.ProbeN("frames-captured", len(frames))
	res.Nontrivial = res.Probes["delivered"]+res.Probes["ask-served"] > 0 && len(chans) > 1 && w.Sim.Stats.MultiRunnable > 0
	var sample []string
	for _, e := range w.Led.Entries {
		sample = append(sample, fmt.Sprintf("msg %d: %d->%d channel %d len=%d err=%v delivered=%d", e.ID, e.From, e.To, e.Chan, len(e.Payload), e.Err, e.Delivered))
	}
	res.Sample = head(sample, 12)
}
