package stk

import (
	"crypto/ed25519"
	"io"
	"net"
	"time"

	"golang.org/x/crypto/ssh"
)

// sshBogus is a signer that names a public key and "signs" with a signature whose format does not
// belong to that key: the server answers with an ordinary authentication failure and goes on.
type sshBogus struct{ pub ssh.PublicKey }

func (s sshBogus) PublicKey() ssh.PublicKey { return s.pub }
func (s sshBogus) Sign(io.Reader, []byte) (*ssh.Signature, error) {
	return &ssh.Signature{Format: ssh.KeyAlgoRSASHA256, Blob: make([]byte, 256)}, nil
}

// sshAuthAttack is a peer that holds only its own key A and interleaves the steps of SSH public-key
// authentication as the protocol lets any client do (C04: "may order, repeat and interleave
// authentication steps arbitrarily and may claim any public key"): it offers A, then offers the
// victim's public key V (a query needs no signature), then proves possession of A — in one of several
// orders — and sends one message. It returns the fingerprint of A and whether the message was sent.
func sshAuthAttack(hostport string, victim ed25519.PublicKey, atkSeed []byte, order int, payload []byte, ask bool) (string, bool) {
	a, err := ssh.NewSignerFromKey(ed25519.NewKeyFromSeed(atkSeed))
	if err != nil {
		panic(err)
	}
	v, err := ssh.NewPublicKey(victim)
	if err != nil {
		panic(err)
	}
	fp := ssh.FingerprintSHA256(a.PublicKey())
	var signers []ssh.Signer
	switch order {
	case 0: // A offered, V offered, A proved
		signers = []ssh.Signer{sshBogus{a.PublicKey()}, sshBogus{v}, a}
	case 1: // V offered, A proved
		signers = []ssh.Signer{sshBogus{v}, a}
	case 2: // A offered, V offered twice, A proved
		signers = []ssh.Signer{sshBogus{a.PublicKey()}, sshBogus{v}, sshBogus{v}, a}
	default: // the honest order
		signers = []ssh.Signer{a}
	}
	c, err := net.DialTimeout("tcp", hostport, time.Second)
	if err != nil {
		return fp, false
	}
	defer c.Close()
	c.SetDeadline(time.Now().Add(3 * time.Second))
	cfg := &ssh.ClientConfig{
		Auth:            []ssh.AuthMethod{ssh.PublicKeys(signers...)},
		HostKeyCallback: ssh.InsecureIgnoreHostKey(),
		Timeout:         2 * time.Second,
	}
	sc, _, _, err := ssh.NewClientConn(c, hostport, cfg)
	if err != nil {
		return fp, false
	}
	defer sc.Close()
	if _, _, err := sc.SendRequest("", ask, payload); err != nil {
		return fp, false
	}
	if !ask {
		time.Sleep(20 * time.Millisecond)
	}
	return fp, true
}
