// Package stk builds the stack catalogue (every swarm implementation and their
// nestings over the simulated network or the real in-memory swarm) and the
// workloads and oracles of the swarm-level properties C01, C09-C12, C14a, C15, C16.
package stk

import (
	"context"
	"fmt"
	"reflect"
	"sync"

	"go.brendoncarroll.net/p2p"
	"go.brendoncarroll.net/p2p/f/x509"
)

// Msg is a delivered message with its addresses in text form.
type Msg struct {
	Src, Dst string
	Payload  []byte
}

// Endpoint is the type-erased view of one node's top-of-stack swarm.
type Endpoint interface {
	Node() int
	Tell(ctx context.Context, to int, v p2p.IOVec) error
	TellText(ctx context.Context, addr string, v p2p.IOVec) error
	Receive(ctx context.Context, fn func(Msg)) error
	HasAsk() bool
	Ask(ctx context.Context, resp []byte, to int, v p2p.IOVec) (int, error)
	ServeAsk(ctx context.Context, fn func(ctx context.Context, resp []byte, m Msg) int) error
	MTU() int
	Close() error
	LocalAddrs() []string
	// AddrOf returns the text of the address this endpoint uses for node `to`.
	AddrOf(to int) string
	// RoundTrip parses text with this swarm and marshals the result again.
	RoundTrip(text string) (string, error)
	// ObjectProblems reports address VALUES (local addresses, peer addresses, and the Src/Dst of every
	// message seen so far) that are not equal to what parsing their own text yields.
	ObjectProblems() []string
	Secure() bool
	// LookupKeyInHandler looks up the public key of a source address from inside a callback.
	LookupKey(ctx context.Context, addrText string) (x509.PublicKey, error)
	PublicKey() (x509.PublicKey, bool)
}

func text(a p2p.Addr) string {
	b, err := a.MarshalText()
	if err != nil {
		return "<marshal error: " + err.Error() + ">"
	}
	return string(b)
}

type ep[A p2p.Addr] struct {
	node   int
	sw     p2p.Swarm[A]
	ask    p2p.AskSwarm[A]
	sec    p2p.Secure[A, x509.PublicKey]
	peers  *[]A // address of every node in this cluster (index = node)
	closer func() error
	// address values seen in messages whose text does not parse back to an equal value
	objMu       sync.Mutex // the race legs and Tier B call in from free-running goroutines
	objProblems []string
	objSeen     map[string]bool
}

// checkObj: parse(marshal(a)) must be an address equal to a, not merely one with the same text.
func (e *ep[A]) checkObj(a A, where string) {
	t := text(a)
	e.objMu.Lock()
	defer e.objMu.Unlock()
	if e.objSeen == nil {
		e.objSeen = map[string]bool{}
	}
	if e.objSeen[where+t] {
		return
	}
	e.objSeen[where+t] = true
	b, err := e.sw.ParseAddr([]byte(t))
	if err != nil {
		return // reported by the text round trip
	}
	if !reflect.DeepEqual(any(a), any(b)) {
		e.objProblems = append(e.objProblems, fmt.Sprintf("%s %q: the address parsed from its own text (%#v) is not equal to the original (%#v)", where, t, b, a))
	}
}

func (e *ep[A]) ObjectProblems() []string {
	for _, a := range e.sw.LocalAddrs() {
		e.checkObj(a, "local address")
	}
	e.objMu.Lock()
	defer e.objMu.Unlock()
	out := e.objProblems
	e.objProblems = nil
	return out
}

func (e *ep[A]) Node() int { return e.node }

func (e *ep[A]) Tell(ctx context.Context, to int, v p2p.IOVec) error {
	return e.sw.Tell(ctx, (*e.peers)[to], v)
}

func (e *ep[A]) TellText(ctx context.Context, addr string, v p2p.IOVec) error {
	a, err := e.sw.ParseAddr([]byte(addr))
	if err != nil {
		return fmt.Errorf("parse: %w", err)
	}
	return e.sw.Tell(ctx, a, v)
}

func (e *ep[A]) Receive(ctx context.Context, fn func(Msg)) error {
	return e.sw.Receive(ctx, func(m p2p.Message[A]) {
		e.checkObj(m.Src, "source address")
		e.checkObj(m.Dst, "destination address")
		fn(Msg{Src: text(m.Src), Dst: text(m.Dst), Payload: m.Payload})
	})
}

func (e *ep[A]) HasAsk() bool { return e.ask != nil }

func (e *ep[A]) Ask(ctx context.Context, resp []byte, to int, v p2p.IOVec) (int, error) {
	return e.ask.Ask(ctx, resp, (*e.peers)[to], v)
}

func (e *ep[A]) ServeAsk(ctx context.Context, fn func(ctx context.Context, resp []byte, m Msg) int) error {
	return e.ask.ServeAsk(ctx, func(ctx context.Context, resp []byte, m p2p.Message[A]) int {
		return fn(ctx, resp, Msg{Src: text(m.Src), Dst: text(m.Dst), Payload: m.Payload})
	})
}

func (e *ep[A]) MTU() int { return e.sw.MTU() }

func (e *ep[A]) Close() error {
	if e.closer != nil {
		return e.closer()
	}
	return e.sw.Close()
}

func (e *ep[A]) LocalAddrs() []string {
	var out []string
	for _, a := range e.sw.LocalAddrs() {
		out = append(out, text(a))
	}
	return out
}

func (e *ep[A]) AddrOf(to int) string { return text((*e.peers)[to]) }

func (e *ep[A]) RoundTrip(t string) (string, error) {
	a, err := e.sw.ParseAddr([]byte(t))
	if err != nil {
		return "", err
	}
	b, err := a.MarshalText()
	return string(b), err
}

func (e *ep[A]) Secure() bool { return e.sec != nil }

func (e *ep[A]) LookupKey(ctx context.Context, addrText string) (x509.PublicKey, error) {
	a, err := e.sw.ParseAddr([]byte(addrText))
	if err != nil {
		return x509.PublicKey{}, err
	}
	return e.sec.LookupPublicKey(ctx, a)
}

func (e *ep[A]) PublicKey() (x509.PublicKey, bool) {
	if e.sec == nil {
		return x509.PublicKey{}, false
	}
	return e.sec.PublicKey(), true
}

// cluster wraps one swarm per node into endpoints that know each other's addresses.
// pick selects which local address of a node the others use for it.
func cluster[A p2p.Addr](sws []p2p.Swarm[A], askOK bool) []Endpoint {
	peers := make([]A, len(sws))
	for i, s := range sws {
		peers[i] = s.LocalAddrs()[0]
	}
	out := make([]Endpoint, len(sws))
	for i, s := range sws {
		e := &ep[A]{node: i, sw: s, peers: &peers}
		if a, ok := s.(p2p.AskSwarm[A]); ok && askOK {
			e.ask = a
		}
		if sc, ok := s.(p2p.Secure[A, x509.PublicKey]); ok {
			e.sec = sc
		}
		out[i] = e
	}
	return out
}
