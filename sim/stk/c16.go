package stk

import (
	"context"
	"crypto/sha256"
	"encoding/base64"
	"fmt"
	"net/netip"
	"runtime"
	"strings"
	"time"

	"go.brendoncarroll.net/p2p"
	"go.brendoncarroll.net/p2p/f/x509"
	"go.brendoncarroll.net/p2p/s/mapswarm"
	"go.brendoncarroll.net/p2p/s/sshswarm"
	"go.brendoncarroll.net/p2p/s/udpswarm"
	"go.brendoncarroll.net/p2p/zsimrt"

	"verifsim/simcore"
)

// hostAddrs draws one (ip, port) per node: IPv4, IPv6, IPv4-mapped IPv6, extreme ports.
func (w *World) hostAddrs() []netip.AddrPort {
	if w.hosts != nil {
		return w.hosts
	}
	st := w.St
	for i := 0; i < w.P.N; i++ {
		var ip netip.Addr
		switch st.Intn(5) {
		case 0:
			ip = netip.AddrFrom4([4]byte{10, byte(st.Intn(256)), byte(st.Intn(256)), byte(1 + i)})
		case 1:
			ip = netip.AddrFrom4([4]byte{127, 0, 0, byte(1 + i)})
		case 2:
			b := [16]byte{0x20, 0x01, 0x0d, 0xb8}
			b[15] = byte(1 + i)
			b[7] = byte(st.Intn(256))
			ip = netip.AddrFrom16(b)
		case 3:
			b := [16]byte{}
			b[15] = byte(1 + i) // ::1, ::2, ...
			ip = netip.AddrFrom16(b)
		case 4:
			ip = netip.AddrFrom16([16]byte{0, 0, 0, 0, 0, 0, 0, 0, 0, 0, 0xff, 0xff, 192, 168, byte(st.Intn(256)), byte(1 + i)})
		}
		port := simcore.Pick[uint16](st, 1, 22, 80, 8080, 65535, uint16(1024+st.Intn(60000)))
		w.hosts = append(w.hosts, netip.AddrPortFrom(ip, port))
	}
	return w.hosts
}

// mapUDPL: an address-mapped swarm whose upper addresses are udpswarm.Addr values,
// parsed with udpswarm's own parser.
func mapUDPL[A p2p.Addr](w *World, t tier[A]) tier[udpswarm.Addr] {
	hosts := w.hostAddrs()
	lower := make([]A, len(t.sw))
	index := map[string]int{}
	for i, s := range t.sw {
		lower[i] = s.LocalAddrs()[0]
		index[text(lower[i])] = i
	}
	upOf := func(i int) udpswarm.Addr { return udpswarm.Addr{IP: hosts[i].Addr(), Port: hosts[i].Port()} }
	down := func(a udpswarm.Addr) A {
		for i := range hosts {
			if upOf(i) == a {
				return lower[i]
			}
		}
		return lower[0]
	}
	up := func(a A) udpswarm.Addr {
		if i, ok := index[text(a)]; ok {
			return upOf(i)
		}
		return udpswarm.Addr{}
	}
	if t.sec != nil {
		var xs []p2p.SecureSwarm[udpswarm.Addr, Pub]
		for _, s := range t.sec {
			xs = append(xs, mapswarm.NewSecure[udpswarm.Addr, A, Pub](s, down, up, udpswarm.ParseAddr))
		}
		return secureTier(xs)
	}
	var out tier[udpswarm.Addr]
	for _, s := range t.sw {
		out.sw = append(out.sw, mapswarm.New[udpswarm.Addr, A](s, down, up, udpswarm.ParseAddr))
	}
	return out
}

func sshFingerprint(pub *x509.PublicKey) string {
	sum := sha256.Sum256(x509.MarshalPublicKey(nil, pub))
	return "SHA256:" + base64.RawStdEncoding.EncodeToString(sum[:])
}

// mapSSHL: upper addresses are sshswarm.Addr values (fingerprint@ip:port).
func mapSSHL[A p2p.Addr](w *World, t tier[A]) tier[sshswarm.Addr] {
	hosts := w.hostAddrs()
	lower := make([]A, len(t.sw))
	index := map[string]int{}
	for i, s := range t.sw {
		lower[i] = s.LocalAddrs()[0]
		index[text(lower[i])] = i
	}
	upOf := func(i int) sshswarm.Addr {
		return sshswarm.Addr{Fingerprint: sshFingerprint(&w.Pubs[i]), IP: hosts[i].Addr(), Port: hosts[i].Port()}
	}
	down := func(a sshswarm.Addr) A {
		for i := range hosts {
			if upOf(i) == a {
				return lower[i]
			}
		}
		return lower[0]
	}
	up := func(a A) sshswarm.Addr {
		if i, ok := index[text(a)]; ok {
			return upOf(i)
		}
		return sshswarm.Addr{}
	}
	if t.sec != nil {
		var xs []p2p.SecureSwarm[sshswarm.Addr, Pub]
		for _, s := range t.sec {
			xs = append(xs, mapswarm.NewSecure[sshswarm.Addr, A, Pub](s, down, up, sshswarm.ParseAddr))
		}
		return secureTier(xs)
	}
	var out tier[sshswarm.Addr]
	for _, s := range t.sw {
		out.sw = append(out.sw, mapswarm.New[sshswarm.Addr, A](s, down, up, sshswarm.ParseAddr))
	}
	return out
}

// AddrStacks: the catalogue plus stacks whose addresses have the UDP and SSH forms.
var AddrStacks = append(append([]string{}, Catalogue...),
	"mapudp/sim", "mapssh/sim", "p2pke/mapudp/sim", "frag/p2pke/mapudp/sim", "mux-string/p2pke/mapudp/sim", "mapudp/frag/mem", "multi/mem+mapudp/sim", "multi/mapssh/mem+p2pke/mapudp/sim",
	// identity@identity@transport: the layer beneath a P2PKE swarm has an '@' of its own
	"p2pke/mapssh/sim", "p2pke/p2pke/sim", "frag/p2pke/mapssh/sim", "multi/mem+p2pke/mapssh/sim")

func (w *World) buildAddrStack(spec string) []Endpoint {
	prev := runtime.GOMAXPROCS(w.P.Workers)
	defer runtime.GOMAXPROCS(prev)
	switch spec {
	case "p2pke/mapudp/sim":
		return above(w, nil, p2pkeL(w, mapUDPL(w, w.baseSim())))
	case "frag/p2pke/mapudp/sim":
		return above(w, []string{"frag"}, p2pkeL(w, mapUDPL(w, w.baseSim())))
	case "mux-string/p2pke/mapudp/sim":
		return above(w, []string{"mux-string"}, p2pkeL(w, mapUDPL(w, w.baseSim())))
	case "p2pke/mapssh/sim":
		return above(w, nil, p2pkeL(w, mapSSHL(w, w.baseSim())))
	case "frag/p2pke/mapssh/sim":
		return above(w, []string{"frag"}, p2pkeL(w, mapSSHL(w, w.baseSim())))
	case "p2pke/p2pke/sim":
		return above(w, nil, p2pkeL(w, p2pkeL(w, w.baseSim())))
	case "multi/mem+p2pke/mapssh/sim":
		mt := multiL(w, w.baseMem(), p2pkeL(w, mapSSHL(w, w.baseSim())))
		return cluster(mt.sw, mt.ask)
	case "multi/mem+mapudp/sim":
		mt := multiL(w, w.baseMem(), mapUDPL(w, w.baseSim()))
		return cluster(mt.sw, mt.ask)
	case "multi/mapssh/mem+p2pke/mapudp/sim":
		mt := multiL(w, mapSSHL(w, w.baseMem()), p2pkeL(w, mapUDPL(w, w.baseSim())))
		return cluster(mt.sw, mt.ask)
	}
	return w.Build(spec)
}

// RunC16: every address a stack hands out (local addresses, the addresses the
// nodes use for each other, Src and Dst of every delivered message and ask) is
// marshalled and parsed back with the same swarm.
func RunC16(st *simcore.Stream, tier_, leg string, logOn bool, res *simcore.Result) {
	spec := leg
	p := drawParams(st, spec)
	p.QueueLen = 64
	w := NewWorld(st, res, logOn, spec, p)
	w.Sim.MaxSteps = 60000
	w.Sim.MaxTime = time.Hour
	w.Sim.ClockWeight = 1
	w.Sim.ClockQuanta = clockMenu
	res.Cfg = map[string]any{"stack": spec, "nodes": p.N}
	seen := map[string]bool{}
	checkAddr := func(ep Endpoint, a, where string) {
		key := fmt.Sprintf("%d|%s", ep.Node(), a)
		if seen[key] {
			return
		}
		seen[key] = true
		res.Checks++
		back, err := ep.RoundTrip(a)
		switch {
		case err != nil:
			res.Violate(w.step(), "address-does-not-parse", "stack %s: %s %q handed out by node %d is rejected by the same swarm's ParseAddr: %v", spec, where, a, ep.Node(), err).With("stack", spec).With("form", addrForm(a))
		case back != a:
			res.Violate(w.step(), "address-changes-in-round-trip", "stack %s: %s %q parses and marshals back as %q", spec, where, a, back).With("stack", spec).With("form", addrForm(a))
		default:
			res.Probe("address-round-trip-ok")
		}
	}
	checkObjects := func() {
		for _, ep := range w.Eps {
			for _, pr := range ep.ObjectProblems() {
				res.Checks++
				res.Violate(w.step(), "address-not-equal-after-round-trip", "stack %s, node %d: %s", spec, ep.Node(), pr).With("stack", spec)
			}
		}
	}
	w.AddrHook = func(ep Endpoint, m Msg) {
		checkAddr(ep, m.Src, "source address")
		checkAddr(ep, m.Dst, "destination address")
	}
	w.Sim.Run(func() {
		w.Eps = w.buildAddrStack(spec)
		var hosts []string
		for _, h := range w.hosts {
			hosts = append(hosts, h.String())
		}
		res.Cfg["hosts"] = hosts
		mtu := w.Eps[0].MTU()
		for _, ep := range w.Eps {
			for _, a := range ep.LocalAddrs() {
				checkAddr(ep, a, "local address")
			}
			for j := range w.Eps {
				checkAddr(ep, ep.AddrOf(j), "peer address")
				// an address handed out by node j must also parse at every other node of the same stack
				for _, a := range w.Eps[j].LocalAddrs() {
					checkAddr(ep, a, "local address of another node")
				}
			}
		}
		checkObjects()
		rctx, rcancel := context.WithCancel(context.Background())
		for _, ep := range w.Eps {
			zsimrt.Go("recv", func() { w.ReceiverLoop(rctx, ep, 0, 0) })
			if ep.HasAsk() {
				zsimrt.Go("serve", func() { w.ServeLoop(rctx, ep, 0) })
			}
		}
		for _, ep := range w.Eps {
			w.opBegin()
			zsimrt.Go("send", func() {
				defer w.opEnd()
				for k := 0; k < 2; k++ {
					to := (ep.Node() + 1 + k) % p.N
					ctx, cf := context.WithTimeout(context.Background(), time.Minute)
					if ep.HasAsk() && k == 1 {
						w.AskOnce(ctx, ep, to, 0, 20, mtu)
					} else {
						n := 20
						if n > mtu {
							n = mtu
						}
						w.TellOnce(ctx, ep, to, 0, n)
					}
					cf()
				}
			})
		}
		w.WaitQuiet()
		w.Sim.ClockWeight = 0
		rcancel()
		for _, ep := range w.Eps {
			ep.Close()
		}
		checkObjects()
		w.Finished = true
	})
	fillStats(res, w)
	// C16 decides addresses only
	var keep []simcore.Violation
	for _, v := range res.Violations {
		if strings.HasPrefix(v.Class, "address-") {
			keep = append(keep, v)
		} else {
			res.Probe("other-property-violation-seen:" + v.Class)
		}
	}
	res.Violations = keep
	res.Nontrivial = res.Probes["address-round-trip-ok"] > 2 && res.Probes["delivered"] > 0
	var sample []string
	for k := range seen {
		sample = append(sample, k)
	}
	res.Sample = head(sortedStrings(sample), 12)
}

func addrForm(a string) string {
	switch {
	case strings.Contains(a, "::ffff:"):
		return "ipv4-mapped"
	case strings.Count(a, ":") >= 3:
		return "ipv6"
	}
	return "other"
}

func sortedStrings(x []string) []string {
	out := append([]string{}, x...)
	for i := 1; i < len(out); i++ {
		for j := i; j > 0 && out[j] < out[j-1]; j-- {
			out[j], out[j-1] = out[j-1], out[j]
		}
	}
	return out
}
