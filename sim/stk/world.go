package stk

import (
	"bytes"
	"context"
	"encoding/binary"
	"fmt"
	"net/netip"
	"strings"
	"time"

	"go.brendoncarroll.net/p2p"
	"go.brendoncarroll.net/p2p/f/x509"
	"go.brendoncarroll.net/p2p/p/mbapp"
	"go.brendoncarroll.net/p2p/s/fragswarm"
	"go.brendoncarroll.net/p2p/s/memswarm"
	"go.brendoncarroll.net/p2p/zsimrt"

	"verifsim/simcore"
	"verifsim/simnet"
)

type World struct {
	Sim  *zsimrt.Sim
	St   *simcore.Stream
	Res  *simcore.Result
	Net  *simnet.Net
	P    Params
	Spec string
	Keys []x509.PrivateKey
	Pubs []Pub
	Eps  []Endpoint
	KE   []any

	dirSim       []Pub
	MemTransform func(*memswarm.Message) bool
	udpListen    string // listen address of baseUDP (default 127.0.0.1:0)
	// EmptyAskHook, if set, receives ask requests with an empty payload (C15)
	EmptyAskHook func(ep Endpoint, ch int)
	ChanOpenOn   func(ci, node int) bool

	Led    *Ledger
	askLed *askLedger
	hosts  []netip.AddrPort
	// AddrHook sees every message handed to a callback (C16)
	AddrHook  func(ep Endpoint, m Msg)
	AskFaults bool // negative handler returns and too-small buffers are part of the workload

	// run phases: the root task flips these; OnIdle reads them
	activeOps int  // Tell/Ask calls that have not returned yet, plus senders not yet finished
	Quiesced  bool // set by OnIdle once all active operations ended and nothing can run
	Finished  bool // root task is done: stop at the next idle point
}

// ---- ledger -----------------------------------------------------------------

type Entry struct {
	ID        int
	From, To  int
	Chan      int
	Payload   []byte
	Told      bool  // Tell returned
	Err       error // what Tell returned
	Delivered int
	ToldStep  int
	CallAt    time.Duration // simulated time at which Tell was called
}

type Ledger struct {
	Entries   []*Entry
	byPayload map[string][]*Entry
	nonce     uint16
}

func NewLedger(nonce uint16) *Ledger {
	return &Ledger{byPayload: map[string][]*Entry{}, nonce: nonce}
}

// New creates a unique self-describing payload of exactly n bytes (n >= 12), or
// n stream-derived bytes for shorter ones.
func (l *Ledger) New(st *simcore.Stream, from, to, ch, n int) *Entry {
	e := &Entry{ID: len(l.Entries), From: from, To: to, Chan: ch}
	b := make([]byte, n)
	st.Bytes(b)
	if n >= 12 {
		b[0] = 'L'
		binary.BigEndian.PutUint16(b[1:], l.nonce)
		binary.BigEndian.PutUint32(b[3:], uint32(e.ID))
		b[7], b[8] = byte(from), byte(to)
		binary.BigEndian.PutUint16(b[9:], uint16(n))
		b[11] = byte(ch)
	}
	e.Payload = b
	l.Entries = append(l.Entries, e)
	l.byPayload[string(b)] = append(l.byPayload[string(b)], e)
	return e
}

// Lookup returns the entries whose payload is exactly p.
func (l *Ledger) Lookup(p []byte) []*Entry { return l.byPayload[string(p)] }

// Prepend puts prefix in front of e's payload (payloads that start like a header).
func (l *Ledger) Prepend(e *Entry, prefix []byte) {
	old := string(e.Payload)
	lst := l.byPayload[old]
	for i, x := range lst {
		if x == e {
			l.byPayload[old] = append(lst[:i:i], lst[i+1:]...)
			break
		}
	}
	e.Payload = append(append([]byte{}, prefix...), e.Payload...)
	l.byPayload[string(e.Payload)] = append(l.byPayload[string(e.Payload)], e)
}

// Diagnose explains a payload that matches no entry.
func (l *Ledger) Diagnose(p []byte) string {
	for _, e := range l.Entries {
		if len(e.Payload) == len(p) && len(p) >= 64 {
			// same length: report where it differs
			first, last, ndiff := -1, -1, 0
			for i := range p {
				if p[i] != e.Payload[i] {
					if first < 0 {
						first = i
					}
					last = i
					ndiff++
				}
			}
			if ndiff >= len(p)/2 {
				// block analysis: where in the told message does each 8-byte block of p occur?
				var moved []string
				for off := 0; off+8 <= len(p) && len(moved) < 12; off += 8 {
					if at := bytes.Index(e.Payload, p[off:off+8]); at >= 0 && at != off {
						moved = append(moved, fmt.Sprintf("%d<-%d", off, at))
					}
				}
				if len(moved) > 3 {
					return fmt.Sprintf("message %d with its bytes displaced (received offset<-told offset): %v", e.ID, moved)
				}
			}
			if ndiff < len(p)/2 {
				return fmt.Sprintf("message %d with %d of %d bytes different (first at %d, last at %d)", e.ID, ndiff, len(p), first, last)
			}
		}
	}
	for _, e := range l.Entries {
		switch {
		case len(p) < len(e.Payload) && bytes.HasPrefix(e.Payload, p):
			return fmt.Sprintf("a truncation (first %d of %d bytes) of message %d", len(p), len(e.Payload), e.ID)
		case len(p) > len(e.Payload) && len(e.Payload) >= 12 && bytes.HasPrefix(p, e.Payload):
			return fmt.Sprintf("message %d (%d bytes) with %d extra bytes appended", e.ID, len(e.Payload), len(p)-len(e.Payload))
		case len(e.Payload) >= 24 && len(p) >= 24 && bytes.Contains(e.Payload, p[:min(24, len(p))]):
			return fmt.Sprintf("starts with bytes taken from inside message %d (a mixture)", e.ID)
		}
	}
	if len(p) >= 12 && p[0] == 'L' {
		id := int(binary.BigEndian.Uint32(p[3:]))
		if id < len(l.Entries) {
			e := l.Entries[id]
			n := 0
			for n < len(p) && n < len(e.Payload) && p[n] == e.Payload[n] {
				n++
			}
			return fmt.Sprintf("carries the header of message %d (%d bytes told) but has %d bytes and differs from byte %d on", id, len(e.Payload), len(p), n)
		}
	}
	return "unrelated to anything told"
}

// ---- world construction -------------------------------------------------------

func NewWorld(st *simcore.Stream, res *simcore.Result, logOn bool, spec string, p Params) *World {
	// guarded hooks of /repo (build tag verif): where the per-peer fragment message ids and the
	// message-box counter start. Header sizes grow with them (varints) and they wrap at 2^32.
	ids := []uint32{0, 0, 0, 0, 126, 127, 16382, 16383, 1<<21 - 2, 1 << 21, 1<<28 - 2, 1 << 28, 1<<32 - 3}
	fragswarm.VerifFirstMsgID.Store(ids[st.Intn(len(ids))])
	mbapp.VerifFirstCounter.Store(ids[st.Intn(len(ids))])
	sim := zsimrt.New(st)
	sim.LogOn = logOn
	w := &World{Sim: sim, St: st, Res: res, P: p, Spec: spec}
	w.Net = simnet.New(sim, st, p.InnerMTU)
	for i := 0; i < p.N; i++ {
		k, pub := nodeKey(res.Seed, i)
		w.Keys = append(w.Keys, k)
		w.Pubs = append(w.Pubs, pub)
	}
	w.Led = NewLedger(uint16(res.Seed))
	sim.Env = w.Net.Actions
	sim.OnIdle = func() int {
		w.overdueAsks()
		if w.Finished {
			return zsimrt.IdleStop
		}
		if w.activeOps == 0 && !w.Quiesced {
			w.Quiesced = true
			return zsimrt.IdleRetry
		}
		return zsimrt.IdleAdvance
	}
	return w
}

// WaitQuiet blocks the calling (root) task until every started operation has
// returned and the whole system is quiescent: nothing in flight, nothing runnable.
func (w *World) WaitQuiet() {
	w.Quiesced = false
	zsimrt.WaitUntil("harness/wait-quiet", func() bool { return w.Quiesced })
}

func (w *World) opBegin() { w.activeOps++ }
func (w *World) opEnd()   { w.activeOps-- }

func (w *World) step() int { return w.Sim.Step }

func (w *World) UsesSim() bool {
	return strings.HasSuffix(w.Spec, "sim") || strings.Contains(w.Spec, "+")
}
func (w *World) UsesMem() bool { return strings.Contains(w.Spec, "mem") }
func (w *World) HasKE() bool   { return strings.Contains(w.Spec, "p2pke") }

// srcOK reports whether text names node `from` as seen from the top of the stack.
func (w *World) srcOK(from int, src string) bool {
	for _, a := range w.Eps[from].LocalAddrs() {
		if a == src {
			return true
		}
	}
	return false
}

// ---- delivery oracle (C01 / C10 / C14a / C15) -----------------------------------

// OnDeliver is called inside a Receive callback of node `at` (channel ch).
func (w *World) OnDeliver(at, ch int, m Msg) {
	res := w.Res
	res.Checks++
	cands := w.Led.Lookup(m.Payload)
	if len(cands) == 0 {
		res.Violate(w.step(), "payload-not-told", "node %d received %d bytes that nobody passed to Tell: %s", at, len(m.Payload), w.Led.Diagnose(m.Payload)).With("stack", w.Spec).With("len", len(m.Payload))
		return
	}
	var forMe []*Entry
	for _, e := range cands {
		if e.To == at {
			forMe = append(forMe, e)
		}
	}
	if len(forMe) == 0 {
		res.Violate(w.step(), "delivered-to-wrong-node", "node %d received message %d which was told to node %d", at, cands[0].ID, cands[0].To).With("stack", w.Spec)
		return
	}
	var rightChan []*Entry
	for _, e := range forMe {
		if e.Chan == ch {
			rightChan = append(rightChan, e)
		}
	}
	if len(rightChan) == 0 {
		res.Violate(w.step(), "delivered-on-wrong-channel", "node %d channel %d received message %d which was told on channel %d", at, ch, forMe[0].ID, forMe[0].Chan).With("stack", w.Spec)
		return
	}
	// several entries can share a (short) payload: attribute the delivery to the
	// matching entry that has been delivered least often
	okSrc := false
	var best *Entry
	for _, e := range rightChan {
		if w.srcOK(e.From, m.Src) && (best == nil || e.Delivered < best.Delivered) {
			best = e
		}
	}
	if best != nil {
		okSrc = true
		best.Delivered++
		if best.Delivered > 1 {
			res.Probe("duplicate-delivery")
		}
	}
	if !okSrc {
		res.Violate(w.step(), "wrong-source-address", "node %d received message %d from node %d but Src=%q is not one of the sender's addresses %v", at, rightChan[0].ID, rightChan[0].From, m.Src, w.Eps[rightChan[0].From].LocalAddrs()).With("stack", w.Spec)
	}
	dstOK := false
	for _, a := range w.Eps[at].LocalAddrs() {
		if a == m.Dst {
			dstOK = true
		}
	}
	if !dstOK {
		res.Violate(w.step(), "wrong-destination-address", "node %d received a message with Dst=%q which is not one of its addresses %v", at, m.Dst, w.Eps[at].LocalAddrs()).With("stack", w.Spec)
	}
	res.Probe("delivered")
	if len(m.Payload) == 0 {
		res.Probe("delivered-empty")
	}
}

// ReceiverLoop receives on ep until ctx ends or the swarm closes. The callback
// checks the ledger, then yields and re-checks that nobody touched its buffer.
func (w *World) ReceiverLoop(ctx context.Context, ep Endpoint, ch int, yields int) {
	for {
		err := ep.Receive(ctx, func(m Msg) {
			w.OnDeliver(ep.Node(), ch, m)
			if w.AddrHook != nil {
				w.AddrHook(ep, m)
			}
			snap := append([]byte{}, m.Payload...)
			srcSnap := m.Src
			for i := 0; i < yields; i++ {
				zsimrt.Yield("harness/in-callback")
			}
			w.Res.Checks++
			if !bytes.Equal(snap, m.Payload) || srcSnap != m.Src {
				w.Res.Violate(w.step(), "buffer-changed-in-callback", "node %d: the message changed while its callback was running", ep.Node()).With("stack", w.Spec)
			}
		})
		if err != nil {
			return
		}
		zsimrt.Yield("harness/recv-loop")
	}
}

// TellOnce performs one ledger Tell from ep to node `to` with the payload split
// into a random IOVec, checks the sender-side clauses and poisons the buffers.
func (w *World) TellOnce(ctx context.Context, ep Endpoint, to, ch, n int) *Entry {
	return w.TellEntry(ctx, ep, w.Led.New(w.St, ep.Node(), to, ch, n))
}

// TellEntry tells a prepared ledger entry.
func (w *World) TellEntry(ctx context.Context, ep Endpoint, e *Entry) *Entry {
	st := w.St
	to := e.To
	buf := append([]byte{}, e.Payload...)
	var vec p2p.IOVec
	switch st.Intn(4) {
	case 0:
		vec = p2p.IOVec{buf}
	case 1:
		cut := 0
		if len(buf) > 0 {
			cut = st.Intn(len(buf) + 1)
		}
		vec = p2p.IOVec{buf[:cut], buf[cut:]}
	case 2:
		vec = p2p.IOVec{nil, buf, nil}
	case 3:
		for i := 0; i < len(buf); {
			j := i + 1 + st.Intn(7)
			if j > len(buf) {
				j = len(buf)
			}
			vec = append(vec, buf[i:j])
			i = j
		}
	}
	w.opBegin()
	zsimrt.Yield("harness/before-tell")
	e.CallAt = w.Sim.Now()
	e.Err = ep.Tell(ctx, to, vec)
	e.Told = true
	e.ToldStep = w.step()
	w.opEnd()
	w.Res.Checks++
	if !bytes.Equal(buf, e.Payload) {
		w.Res.Violate(w.step(), "sender-buffer-modified", "Tell of message %d modified the caller's buffers", e.ID).With("stack", w.Spec)
	}
	// the caller may overwrite its buffers as soon as Tell returns
	for i := range buf {
		buf[i] = 0xEE
	}
	if e.Err == nil {
		w.Res.Probe("tell-ok")
	} else {
		w.Res.Probe("tell-error")
	}
	return e
}

// pickLen draws a payload length biased to the boundaries of the stack.
func (w *World) pickLen(mtu int) int {
	st := w.St
	if mtu > 70000 {
		mtu = 70000
	}
	under := w.P.InnerMTU
	if w.P.ManyParts && st.Bool(2, 3) {
		// around 255/256 parts of the fragmenting swarm (15 bytes of header) and of
		// the message-box swarm (24 bytes of header), and the very top
		big := []int{255 * (under - 15), 256 * (under - 15), 256*(under-15) + 1, 257 * (under - 15), 255 * (under - 24), 256*(under-24) + 1, mtu, mtu - 1, mtu / 2}
		n := big[st.Intn(len(big))]
		if n > mtu {
			n = mtu
		}
		if n < 0 {
			n = 0
		}
		return n
	}
	cands := []int{0, 1, 11, 12, 13, mtu, mtu - 1, mtu / 2, under, under - 1, under + 1, under - 15, under - 24, under - 25, 2*under - 30, 3 * under}
	if st.Bool(1, 2) {
		n := cands[st.Intn(len(cands))]
		if n < 0 {
			n = 0
		}
		if n > mtu {
			n = mtu
		}
		return n
	}
	if mtu <= 0 {
		return 0
	}
	lim := mtu
	if lim > 4*under+40 {
		lim = 4*under + 40
	}
	return st.Intn(lim + 1)
}

// dropClasses removes violation classes that belong to another property's check
// (which runs the same code paths and reports them there), so that every check
// decides its own property only.
func dropClasses(res *simcore.Result, classes ...string) {
	var keep []simcore.Violation
	for _, v := range res.Violations {
		drop := false
		for _, c := range classes {
			if v.Class == c {
				drop = true
			}
		}
		if drop {
			res.Probe("other-property-violation-seen:" + v.Class)
		} else {
			keep = append(keep, v)
		}
	}
	res.Violations = keep
}

// c11Classes are the answer-related classes owned by C11.
var c11Classes = []string{"ask-wrong-answer", "ask-truncated-success", "ask-success-after-handler-failure", "ask-overdue", "ask-never-returned", "ask-bad-length"}

func fillStats(res *simcore.Result, w *World) {
	sim := w.Sim
	res.Steps = sim.Step
	res.SimMs = sim.Now().Milliseconds()
	res.TraceHash = fmt.Sprintf("%016x", sim.TraceHash)
	res.NBigrams = len(sim.Bigrams)
	for k := range sim.Bigrams {
		if len(res.Bigrams) >= 64 {
			break
		}
		res.Bigrams = append(res.Bigrams, k)
	}
	res.ProbeN("multi-runnable-steps", sim.Stats.MultiRunnable)
	if sim.Stats.AnonTasks > 0 {
		res.ProbeN("unidentified-tasks", sim.Stats.AnonTasks)
	}
	if sim.Stats.HitStepCap {
		res.Probe("hit-step-cap")
	}
	if sim.Stats.HitTimeCap {
		res.Probe("hit-time-cap")
	}
	if !w.Finished {
		// the root task never reached the end of its script (cap, or something it waits for never happens)
		res.Probe("run-unfinished")
	}
	for k, v := range w.Net.Fired {
		res.FaultN("net-"+k, v)
	}
	if sim.LogOn {
		res.Log = sim.Log
	}
}

var _ = time.Second
