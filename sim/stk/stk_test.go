package stk

import (
	"os"
	"strings"
	"testing"
	"testing/cryptotest"

	"verifsim/kad"
	"verifsim/sess"
	"verifsim/simcore"
)

// One binary serves the swarm-stack properties; SIM_PROP selects, legs are stack
// specifications from the catalogue (C08 has two legs served by the session and
// DHT simulations).
func TestSim(t *testing.T) {
	prop := os.Getenv("SIM_PROP")
	if prop == "" {
		prop = "C01"
	}
	simcore.Main(prop, Catalogue, func(st *simcore.Stream, tier, leg string, logOn bool, res *simcore.Result) {
		if strings.HasPrefix(leg, "quic/") || leg == "udp" || leg == "udp6" || leg == "ssh" || strings.HasSuffix(leg, "/udp") || strings.HasSuffix(leg, "/ssh") {
			// Tier B: third-party goroutines, real clock, sequential workload, outcome-level oracles
			cryptotest.SetGlobalRandom(t, res.Seed)
			RunTierB(prop, st, tier, leg, logOn, res)
			return
		}
		simcore.Bubble(t, res.Seed, func() {
			switch prop {
			case "C01":
				RunC01(st, tier, leg, logOn, res)
			case "C04":
				RunC04(st, tier, leg, logOn, res)
			case "C08":
				switch leg {
				case "session":
					// the adversarial-transport simulation of C02/C03: only crashes count here
					sess.RunAdv("C08", st, tier, "active", logOn, res)
					var keep []simcore.Violation
					for _, v := range res.Violations {
						if v.Class == "panic" {
							keep = append(keep, v)
						}
					}
					res.Violations = keep
				case "dht":
					kad.RunC08DHT(st, tier, leg, logOn, res)
				default:
					RunC08(st, tier, leg, logOn, res)
				}
			case "C09":
				RunC09(st, tier, leg, logOn, res)
			case "C10":
				RunC10(st, tier, leg, logOn, res)
			case "C11":
				RunC11(st, tier, leg, logOn, res)
			case "C12":
				RunC12(st, tier, leg, logOn, res)
			case "C15":
				RunC15(st, tier, leg, logOn, res)
			case "C16":
				RunC16(st, tier, leg, logOn, res)
			default:
				panic("unknown SIM_PROP " + prop)
			}
		})
	})
}
