package stk

import (
	"context"
	"fmt"
	"time"

	"go.brendoncarroll.net/p2p/zsimrt"

	"verifsim/simcore"
)

// AskStacks are the ask-capable stacks of the catalogue.
var AskStacks = []string{"mem", "mbapp/sim", "mbapp/mem", "askmux-string/mem", "askmux-varint/mbapp/sim",
	"multi/mbapp/mem+mbapp/sim", "wl/mbapp/sim", "wl/mem", "mbapp/p2pke/sim", "mbapp/frag/mem"}

// RunC11: many concurrent askers and servers; loss, duplication and reordering of
// request and (multi-part) response datagrams beneath the message-box swarm;
// negative handler returns, buffers that are too small, context deadlines, and
// closure of a destination at a random moment. Every returned Ask is compared
// with the ledger of what its own handler invocation produced.
func RunC11(st *simcore.Stream, tier, leg string, logOn bool, res *simcore.Result) {
	spec := leg
	p := drawParams(st, spec)
	p.QueueLen = 4 + st.Intn(60)
	w := NewWorld(st, res, logOn, spec, p)
	w.AskFaults = true
	w.Sim.MaxSteps = 120000
	w.Sim.MaxTime = 2 * time.Hour
	w.Sim.ClockWeight = 1
	w.Sim.ClockQuanta = clockMenu
	setFaults(w, st, w.HasKE())
	nAskers := 1 + st.Intn(4)
	perAsker := 1 + st.Intn(3)
	nServers := 1 + st.Intn(3)
	closeOne := st.Bool(1, 3)
	// in some runs with a closing node nobody serves on it: its asks are parked in the stack when Close comes
	victimUnserved := closeOne && st.Bool(1, 2)
	victim := st.Intn(p.N)
	res.Cfg = map[string]any{"stack": spec, "nodes": p.N, "innerMTU": p.InnerMTU, "fragMTU": p.FragMTU, "workers": p.Workers, "askers": nAskers, "perAsker": perAsker,
		"servers": nServers, "closeOne": closeOne, "closedNodeUnserved": victimUnserved, "faults": fmt.Sprintf("%+v", w.Net.Faults)}

	w.Sim.Run(func() {
		w.Eps = w.Build(spec)
		if !w.Eps[0].HasAsk() {
			panic("stack " + spec + " is not ask-capable")
		}
		mtu := w.Eps[0].MTU()
		res.Cfg["mtu"] = mtu
		sctx, scancel := context.WithCancel(context.Background())
		for i, ep := range w.Eps {
			for s := 0; s < nServers && !(victimUnserved && i == victim); s++ {
				zsimrt.Go("serve", func() { w.ServeLoop(sctx, ep, 0) })
			}
			// tells keep flowing on ask-capable swarms too
			zsimrt.Go("recv", func() { w.ReceiverLoop(sctx, ep, 0, 0) })
		}
		closedNode, closedStep := -1, -1
		if closeOne {
			delay := st.Intn(60)
			w.opBegin()
			zsimrt.Go("closer", func() {
				defer w.opEnd()
				for i := 0; i < delay; i++ {
					zsimrt.Yield("harness/close-wait")
				}
				res.Fault("destination-closed")
				closedNode = victim
				w.Eps[victim].Close()
				closedStep = w.step()
			})
		}
		for _, ep := range w.Eps {
			for a := 0; a < nAskers; a++ {
				w.opBegin()
				zsimrt.Go("asker", func() {
					defer w.opEnd()
					for k := 0; k < perAsker; k++ {
						to := st.Intn(p.N)
						if to == ep.Node() {
							to = (to + 1) % p.N
						}
						dl := simcore.Pick(st, 2*time.Second, 10*time.Second, 40*time.Second, 3*time.Minute)
						ctx, cf := context.WithTimeout(context.Background(), dl)
						n := 12 + st.Intn(40)
						if st.Bool(1, 3) {
							n = w.pickLen(mtu)
						}
						rec := w.AskOnce(ctx, ep, to, 0, n, mtu)
						cf()
						// a destination that was closed before the ask even started cannot have served it
						if rec.Err == nil && closedNode == to && closedStep >= 0 && closedStep < rec.Call && rec.Served == 0 {
							res.Violate(w.step(), "ask-success-from-closed-destination", "Ask %d to node %d succeeded although that node was closed at step %d, before the ask started at step %d", rec.ID, to, closedStep, rec.Call).With("stack", spec)
						}
						if k+1 < perAsker && st.Bool(1, 2) {
							zsimrt.Yield("harness/between-asks")
						}
					}
				})
			}
		}
		w.WaitQuiet()
		w.Sim.ClockWeight = 0
		scancel()
		for i, ep := range w.Eps {
			if i != closedNode {
				ep.Close()
			}
		}
		w.Finished = true
	})
	fillStats(res, w)
	// every ask must have returned by now (their deadlines are far behind us or the run was cut)
	for _, rec := range w.asks().recs {
		if rec.Call > 0 && !rec.Returned && !w.Sim.Stats.HitStepCap && !rec.overdueSeen() {
			res.Violate(res.Steps, "ask-never-returned", "Ask %d never returned", rec.ID).With("stack", spec)
		}
	}
	res.Nontrivial = res.Probes["ask-answer-exact"] > 0 && len(res.Faults) > 0 && w.Sim.Stats.MultiRunnable > 0
	var sample []string
	for _, rec := range w.asks().recs {
		sample = append(sample, fmt.Sprintf("ask %d: %d->%d req=%d respLen=%d buf=%d neg=%v served=%d n=%d err=%v", rec.ID, rec.From, rec.To, len(rec.Req), rec.RespLen, rec.BufLen, rec.Negative, rec.Served, rec.N, rec.Err))
	}
	res.Sample = head(sample, 12)
}
