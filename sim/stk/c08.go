package stk

import (
	"context"
	"encoding/binary"
	"fmt"
	"time"

	"go.brendoncarroll.net/p2p/s/memswarm"
	"go.brendoncarroll.net/p2p/zsimrt"

	"verifsim/simcore"
	"verifsim/simnet"
)

// boundary values written over packet bytes
var boundaryInts = [][]byte{
	{0}, {1}, {0x7f}, {0x80}, {0xff},
	{0xff, 0xff}, {0x00, 0x00}, {0x80, 0x00}, {0x00, 0x01},
	{0xff, 0xff, 0xff, 0xff}, {0x7f, 0xff, 0xff, 0xff}, {0, 0, 0, 0},
	{0xff, 0xff, 0xff, 0xff, 0xff, 0xff, 0xff, 0xff},
	{0xff, 0xff, 0xff, 0xff, 0xff, 0xff, 0xff, 0xff, 0xff, 0x01},       // maximal uvarint
	{0x80, 0x80, 0x80, 0x80, 0x80, 0x80, 0x80, 0x80, 0x80, 0x80, 0x80}, // overlong uvarint
}

// mutatePacket returns a mutation of data; captured supplies other genuine packets.
func mutatePacket(st *simcore.Stream, res *simcore.Result, data []byte, captured []*simnet.Pkt) []byte {
	d := append([]byte{}, data...)
	switch st.Intn(8) {
	case 0: // bit flip
		if len(d) > 0 {
			d[st.Intn(len(d))] ^= 1 << uint(st.Intn(8))
		}
		res.Fault("adv-bitflip")
	case 1: // truncate at any length
		if len(d) > 0 {
			d = d[:st.Intn(len(d))]
		}
		res.Fault("adv-truncate")
	case 2: // extend
		ext := make([]byte, 1+st.Intn(40))
		st.Bytes(ext)
		d = append(d, ext...)
		res.Fault("adv-extend")
	case 3, 4: // overwrite the bytes at some offset with a boundary integer (biased to the header)
		if len(d) > 0 {
			off := st.Intn(len(d))
			if st.Bool(2, 3) {
				off = st.Intn(min(len(d), 32))
			}
			b := boundaryInts[st.Intn(len(boundaryInts))]
			for i := 0; i < len(b) && off+i < len(d); i++ {
				d[off+i] = b[i]
			}
		}
		res.Fault("adv-boundary-overwrite")
	case 5: // prefix of one genuine packet, rest of another
		if len(captured) > 0 {
			o := captured[st.Intn(len(captured))].Data
			cut := st.Intn(min(len(d), 40) + 1)
			if cut <= len(o) {
				d = append(append([]byte{}, d[:cut]...), o[cut:]...)
			}
		}
		res.Fault("adv-splice")
	case 6: // random bytes
		d = make([]byte, st.Intn(120))
		st.Bytes(d)
		res.Fault("adv-random-bytes")
	case 7: // insert a boundary integer, shifting the rest
		if len(d) > 0 {
			off := st.Intn(min(len(d), 32))
			b := boundaryInts[st.Intn(len(boundaryInts))]
			d = append(append(append([]byte{}, d[:off]...), b...), d[off:]...)
		}
		res.Fault("adv-insert")
	}
	return d
}

// C08Stacks: every packet-facing layer over a transport the adversary can write to.
var C08Stacks = []string{"frag/sim", "mbapp/sim", "mux-string/sim", "mux-varint/sim", "mux-u16/sim", "mux-u32/sim", "mux-u64/sim", "askmux-string/mbapp/sim", "askmux-varint/mbapp/sim",
	"multi/mem+sim", "multi/mbapp/mem+mbapp/sim", "p2pke/sim", "frag/p2pke/sim", "mbapp/p2pke/sim", "wl/mbapp/sim", "map/frag/sim", "frag/frag/sim", "mbapp/frag/sim", "frag/mem", "mbapp/mem", "mux-string/mem"}

// RunC08: honest traffic plus an adversary at the transport that knows nothing of
// the formats: random bytes, mutations of genuine packets captured in the same
// run, and inconsistent sequences (a genuine fragment followed by mutated
// siblings). The oracle is survival of the process (the driver attributes a crash
// to the seed) and, afterwards, that a valid message is still delivered.
func RunC08(st *simcore.Stream, tier_, leg string, logOn bool, res *simcore.Result) {
	spec := leg
	p := drawParams(st, spec)
	p.QueueLen = 64
	w := NewWorld(st, res, logOn, spec, p)
	w.Sim.MaxSteps = 200000
	w.Sim.MaxTime = 2 * time.Hour
	w.Sim.ClockWeight = 1
	w.Sim.ClockQuanta = clockMenu
	w.Net.Faults = simnet.Faults{Reorder: st.Intn(3), Dup: st.Intn(2)}
	nInject := 20 + st.Intn(120)
	res.Cfg = map[string]any{"stack": spec, "nodes": p.N, "innerMTU": p.InnerMTU, "fragMTU": p.FragMTU, "workers": p.Workers, "injections": nInject}

	var captured []*simnet.Pkt
	w.Net.OnTell = func(pk *simnet.Pkt) {
		if len(captured) < 400 {
			cp := *pk
			cp.Data = append([]byte{}, pk.Data...)
			captured = append(captured, &cp)
		}
	}
	// on the in-memory swarm the adversary sits in the tell transform
	quiet := false
	if w.UsesMem() {
		w.MemTransform = func(m *memswarm.Message) bool {
			if !quiet && st.Bool(1, 4) {
				m.Payload = mutatePacket(st, res, m.Payload, nil)
				if len(m.Payload) > p.InnerMTU {
					m.Payload = m.Payload[:p.InnerMTU]
				}
			}
			return true
		}
	}
	advDone := false

	w.Sim.Run(func() {
		w.Eps = w.Build(spec)
		mtu := w.Eps[0].MTU()
		rctx, rcancel := context.WithCancel(context.Background())
		for _, ep := range w.Eps {
			for r := 0; r < 1+st.Intn(2); r++ {
				zsimrt.Go("recv", func() { w.ReceiverLoop(rctx, ep, 0, 0) })
			}
			if ep.HasAsk() {
				zsimrt.Go("serve", func() { w.ServeLoop(rctx, ep, 0) })
			}
		}
		for _, ep := range w.Eps {
			w.opBegin()
			zsimrt.Go("send", func() {
				defer w.opEnd()
				for k := 0; k < 2+st.Intn(5); k++ {
					to := (ep.Node() + 1 + st.Intn(p.N-1)) % p.N
					ctx, cf := context.WithTimeout(context.Background(), 20*time.Second)
					if ep.HasAsk() && st.Bool(1, 3) {
						w.AskOnce(ctx, ep, to, 0, 12+st.Intn(200), mtu)
					} else {
						w.TellOnce(ctx, ep, to, 0, w.pickLen(mtu))
					}
					cf()
				}
			})
		}
		if w.UsesSim() {
			w.opBegin()
			zsimrt.Go("adversary", func() {
				defer w.opEnd()
				for k := 0; k < nInject; k++ {
					for i := 0; i < st.Intn(12); i++ {
						zsimrt.Yield("harness/adversary-wait")
					}
					var data []byte
					src := simnet.Addr{N: st.Intn(len(w.Net.Nodes))}
					dst := simnet.Addr{N: st.Intn(len(w.Net.Nodes))}
					if len(captured) > 0 && st.Bool(5, 6) {
						pk := captured[st.Intn(len(captured))]
						data = mutatePacket(st, res, pk.Data, captured)
						if st.Bool(3, 4) {
							// same source and destination: lands in the reassembly state of the genuine message
							src, dst = pk.Src, pk.Dst
						}
					} else {
						data = make([]byte, st.Intn(100))
						st.Bytes(data)
						res.Fault("adv-random-bytes")
					}
					if len(data) > w.Net.MTU {
						data = data[:w.Net.MTU]
					}
					w.Net.Inject(src, dst, data)
					if st.Bool(1, 10) {
						zsimrt.Sleep(simcore.Pick(st, time.Second, 11*time.Second, 61*time.Second))
					}
				}
				advDone = true
			})
		}
		w.WaitQuiet()
		_ = advDone
		// ---- the node keeps serving: a valid message still gets through ----
		w.Net.FaultsOff = true
		quiet = true
		w.Sim.ClockWeight = 0
		served := false
		for try := 0; try < 4 && !served; try++ {
			from := st.Intn(p.N)
			to := (from + 1) % p.N
			ctx, cf := context.WithTimeout(context.Background(), time.Minute)
			n := 20
			if n > mtu {
				n = mtu
			}
			e := w.TellOnce(ctx, w.Eps[from], to, 0, n)
			cf()
			w.WaitQuiet()
			served = e.Delivered > 0
			if !served {
				// a secure channel whose two ends disagree about the session (the adversary made one
				// side drop it) heals by its own timers: keep-alive timeout, then a new handshake, at
				// the latest when the session is rejected. Tell promises no delivery meanwhile.
				zsimrt.Sleep([]time.Duration{20 * time.Second, time.Minute, 200 * time.Second, 0}[try])
				w.WaitQuiet()
			}
		}
		res.Checks++
		if !served {
			res.Violate(w.step(), "stopped-serving", "after the adversarial phase four valid messages spread over five simulated minutes (longer than every protocol timer) were not delivered on a fault-free network").With("stack", spec)
		} else if served {
			res.Probe("still-serving-afterwards")
		}
		rcancel()
		for _, ep := range w.Eps {
			ep.Close()
		}
		w.Finished = true
	})
	fillStats(res, w)
	// C08 decides crash-freedom and continued service; what the adversary makes the
	// insecure layers deliver is not a violation here (there is no authentication to break)
	var keep []simcore.Violation
	for _, v := range res.Violations {
		if v.Class == "stopped-serving" {
			keep = append(keep, v)
		} else {
			res.Probe("adversarial-effect:" + v.Class)
		}
	}
	res.Violations = keep
	res.Nontrivial = len(res.Faults) > 0 && res.Probes["delivered"] > 0
	res.Sample = []string{fmt.Sprintf("stack %s: %d injections, faults %v", spec, nInject, res.Faults)}
	_ = binary.BigEndian
}
