package stk

import (
	"bytes"
	"context"
	"fmt"
	"strings"
	"time"

	"go.brendoncarroll.net/p2p"
	"go.brendoncarroll.net/p2p/zsimrt"

	"verifsim/simcore"
)

// drawChannel draws a multiplexer channel id with extremes.
func drawChannel(st *simcore.Stream, spec string) any {
	top := strings.Split(spec, "/")[0]
	kind := strings.TrimPrefix(strings.TrimPrefix(top, "ask"), "mux-")
	switch kind {
	case "string":
		return simcore.Pick(st, "", "a", "chan-A", "a-much-longer-channel-name-than-usual/with.some-punctuation", string(bytes.Repeat([]byte("x"), 130)), "\x05hello")
	case "u16":
		return simcore.Pick[uint16](st, 0, 1, 7, 0x7fff, 0xffff)
	case "u32":
		return simcore.Pick[uint32](st, 0, 1, 7, 0x7fffffff, 0xffffffff)
	case "u64", "varint":
		return simcore.Pick[uint64](st, 0, 1, 127, 128, 300, 1<<32, 1<<63, ^uint64(0))
	}
	return nil
}

// RunC09: on a fault-free network with ample queues, payloads up to MTU() are
// never refused for size and arrive complete; longer ones are refused with the
// MTU error and nothing of them is delivered. One operation at a time, so that
// absence of delivery is attributable.
func RunC09(st *simcore.Stream, tier, leg string, logOn bool, res *simcore.Result) {
	spec := leg
	p := drawParams(st, spec)
	p.N = 2
	p.QueueLen = 2048
	if strings.HasPrefix(spec, "mux-") || strings.HasPrefix(spec, "askmux-") {
		p.Channel = drawChannel(st, spec)
	}
	w := NewWorld(st, res, logOn, spec, p)
	w.Sim.MaxSteps = 400000
	w.Sim.MaxTime = time.Hour
	w.Sim.ClockWeight = 0
	w.Sim.ClockQuanta = clockMenu
	nops := 3 + st.Intn(6)
	cbYields := st.Intn(2)
	res.Cfg = map[string]any{"stack": spec, "innerMTU": p.InnerMTU, "fragMTU": p.FragMTU, "workers": p.Workers, "channel": fmt.Sprintf("%.40q", fmt.Sprint(p.Channel)), "ops": nops}

	w.Sim.Run(func() {
		w.Eps = w.Build(spec)
		mtu := w.Eps[0].MTU()
		res.Cfg["mtu"] = mtu
		if mtu < 0 {
			// the channel header alone exceeds the transport: nothing is sendable, and
			// MTU() says so
			res.Probe("negative-mtu")
			for _, ep := range w.Eps {
				ep.Close()
			}
			w.Finished = true
			return
		}
		rctx, rcancel := context.WithCancel(context.Background())
		for _, ep := range w.Eps {
			zsimrt.Go("recv", func() { w.ReceiverLoop(rctx, ep, 0, cbYields) })
			if ep.HasAsk() {
				zsimrt.Go("serve", func() { w.ServeLoop(rctx, ep, 0) })
			}
		}
		for i := 0; i < nops; i++ {
			from := st.Intn(2)
			ep := w.Eps[from]
			to := 1 - from
			n := w.pickLenC09(mtu)
			if n > 300000 {
				continue
			}
			doAsk := ep.HasAsk() && st.Bool(1, 3)
			ctx, cf := context.WithTimeout(context.Background(), 10*time.Minute)
			if doAsk {
				a := w.AskOnce(ctx, ep, to, 0, n, mtu)
				n = len(a.Req) // requests are at least 12 bytes (unique, self-describing)
				w.WaitQuiet()
				res.Checks++
				switch {
				case n <= mtu && a.Err != nil && p2p.IsErrMTUExceeded(a.Err):
					res.Violate(w.step(), "refused-within-mtu", "Ask with a %d byte request was refused with the MTU error although MTU() is %d", n, mtu).With("stack", spec).With("op", "ask")
				case n > mtu && a.Err == nil:
					res.Violate(w.step(), "accepted-above-mtu", "Ask with a %d byte request succeeded although MTU() is %d", n, mtu).With("stack", spec).With("op", "ask")
				case n > mtu && !p2p.IsErrMTUExceeded(a.Err):
					res.Violate(w.step(), "above-mtu-wrong-error", "Ask with a %d byte request (MTU() %d) failed with %v, which is not the MTU error", n, mtu, a.Err).With("stack", spec).With("op", "ask")
				case n > mtu && a.Served > 0:
					res.Violate(w.step(), "above-mtu-delivered", "Ask with a %d byte request (MTU() %d) was refused but a handler saw it", n, mtu).With("stack", spec).With("op", "ask")
				case n <= mtu && a.Err == nil:
					res.Probe("ask-within-mtu-ok")
				}
			} else {
				e := w.TellOnce(ctx, ep, to, 0, n)
				w.WaitQuiet()
				// Tell is best effort: a single loss (e.g. reassembly state discarded by a
				// housekeeping pass) is not a refusal for size. Only a length that
				// repeatedly fails to arrive, on a fault-free network, counts.
				for try := 0; try < 2 && n <= mtu && e.Err == nil && e.Delivered == 0; try++ {
					res.Probe("lost-on-fault-free-network-retried")
					e = w.TellOnce(ctx, ep, to, 0, n)
					w.WaitQuiet()
				}
				res.Checks++
				switch {
				case n <= mtu && e.Err != nil && p2p.IsErrMTUExceeded(e.Err):
					res.Violate(w.step(), "refused-within-mtu", "Tell of %d bytes was refused with the MTU error although MTU() is %d", n, mtu).With("stack", spec).With("op", "tell")
				case n <= mtu && e.Err == nil && e.Delivered == 0:
					res.Violate(w.step(), "not-delivered-within-mtu", "Tell of %d bytes (MTU() %d) returned nil three times on a fault-free network with ample queues but never arrived", n, mtu).With("stack", spec)
				case n > mtu && e.Err == nil:
					res.Violate(w.step(), "accepted-above-mtu", "Tell of %d bytes succeeded although MTU() is %d (delivered %d times)", n, mtu, e.Delivered).With("stack", spec).With("op", "tell")
				case n > mtu && !p2p.IsErrMTUExceeded(e.Err):
					res.Violate(w.step(), "above-mtu-wrong-error", "Tell of %d bytes (MTU() %d) failed with %v, which is not the MTU error", n, mtu, e.Err).With("stack", spec).With("op", "tell")
				case n > mtu && e.Delivered > 0:
					res.Violate(w.step(), "above-mtu-delivered", "Tell of %d bytes (MTU() %d) was refused but arrived", n, mtu).With("stack", spec)
				case n <= mtu && e.Err == nil:
					res.Probe("tell-within-mtu-arrived")
				case n <= mtu:
					res.Probe("tell-within-mtu-other-error")
				}
				if n > mtu {
					res.Probe("above-mtu-tried")
				}
			}
			cf()
		}
		w.Sim.ClockWeight = 0
		rcancel()
		for _, ep := range w.Eps {
			ep.Close()
		}
		w.Finished = true
	})
	fillStats(res, w)
	dropClasses(res, c11Classes...)
	res.Nontrivial = res.Probes["tell-within-mtu-arrived"]+res.Probes["ask-within-mtu-ok"] > 0 && res.Probes["above-mtu-tried"] > 0
	var sample []string
	for _, e := range w.Led.Entries {
		sample = append(sample, fmt.Sprintf("msg %d: %d->%d len=%d err=%v delivered=%d", e.ID, e.From, e.To, len(e.Payload), e.Err, e.Delivered))
	}
	res.Sample = head(sample, 12)
}

func head(x []string, n int) []string {
	if len(x) > n {
		return x[:n]
	}
	return x
}

// pickLenC09: 0, 1, MTU-1, MTU, MTU+1, MTU+k and the fragment boundaries.
func (w *World) pickLenC09(mtu int) int {
	st := w.St
	under := w.P.InnerMTU
	cands := []int{0, 1, mtu - 1, mtu, mtu, mtu + 1, mtu + 1, mtu + 2, mtu + 9, mtu + under, 2 * mtu,
		under - 15, under - 14, under - 24, under - 23, under, under + 1, 2 * (under - 15), 2*(under-15) + 1, 12, 13}
	n := cands[st.Intn(len(cands))]
	if n < 0 {
		n = 0
	}
	return n
}
