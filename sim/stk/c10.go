package stk

import (
	"bytes"
	"context"
	"fmt"
	"time"

	"go.brendoncarroll.net/p2p/zsimrt"

	"verifsim/simcore"
	"verifsim/simnet"
)

// FragStacks are the reassembling stacks whose fragments travel over the
// simulated network, i.e. whose fragment schedule the simulator chooses.
var FragStacks = []string{"frag/sim", "mbapp/sim", "frag/frag/sim", "wl/mbapp/sim", "askmux-varint/mbapp/sim", "map/frag/sim", "mux-string/frag/sim"}

// RunC10: several sources send several concurrent multi-fragment messages of
// differing sizes to one destination; every fragment can be lost, duplicated,
// delayed across the garbage-collection timers and delivered in any order.
func RunC10(st *simcore.Stream, tier, leg string, logOn bool, res *simcore.Result) {
	spec := leg
	p := drawParams(st, spec)
	p.N = 3 + st.Intn(3) // node 0 is the destination, 2-4 sources
	p.InnerMTU = simcore.Pick(st, 40, 44, 64, 100, 200)
	p.FragMTU = simcore.Pick(st, 300, 1000, 3000)
	w := NewWorld(st, res, logOn, spec, p)
	w.Sim.MaxSteps = 150000
	w.Sim.MaxTime = 6 * time.Hour
	w.Sim.ClockWeight = 1 + st.Intn(3)
	w.Sim.ClockQuanta = []time.Duration{time.Millisecond, 100 * time.Millisecond, time.Second, 4 * time.Second, 11 * time.Second, 30 * time.Second, 61 * time.Second}
	w.Net.Faults = simnet.Faults{Drop: st.Intn(3), Dup: st.Intn(3), Reorder: 2 + st.Intn(6)}
	perSrc := 1 + st.Intn(4)
	conc := 1 + st.Intn(3)
	nRecv := 1 + st.Intn(3)
	res.Cfg = map[string]any{"stack": spec, "sources": p.N - 1, "innerMTU": p.InnerMTU, "fragMTU": p.FragMTU, "workers": p.Workers, "perSource": perSrc, "concurrentPerSource": conc,
		"receivers": nRecv, "faults": fmt.Sprintf("%+v", w.Net.Faults), "clockWeight": w.Sim.ClockWeight}

	// attribution of inner datagrams to ledger messages by content (no header parsing)
	type frag struct {
		e   *Entry
		off int
	}
	byPkt := map[int]frag{}
	arrived := map[*Entry][]int{}
	attribute := func(pk *simnet.Pkt) (frag, bool) {
		if f, ok := byPkt[pk.ID]; ok {
			return f, true
		}
		if len(pk.Data) < 12 {
			return frag{}, false
		}
		tail := pk.Data[len(pk.Data)-8:]
		for _, e := range w.Led.Entries {
			if len(e.Payload) >= 24 {
				if i := bytes.Index(e.Payload, tail); i >= 0 {
					f := frag{e, i}
					byPkt[pk.ID] = f
					return f, true
				}
			}
		}
		return frag{}, false
	}
	w.Net.OnArrive = func(pk *simnet.Pkt) {
		if pk.Dst.N != 0 {
			return
		}
		if f, ok := attribute(pk); ok {
			arrived[f.e] = append(arrived[f.e], f.off)
			res.Probe("fragments-arrived")
		}
	}

	w.Sim.Run(func() {
		w.Eps = w.Build(spec)
		mtu := w.Eps[0].MTU()
		res.Cfg["mtu"] = mtu
		rctx, rcancel := context.WithCancel(context.Background())
		for r := 0; r < nRecv; r++ {
			zsimrt.Go("recv", func() { w.ReceiverLoop(rctx, w.Eps[0], 0, st.Intn(3)) })
		}
		for _, ep := range w.Eps[1:] {
			// the sources do not receive; drain them so nothing backs up
			zsimrt.Go("drain", func() { w.ReceiverLoop(rctx, ep, 0, 0) })
			for c := 0; c < conc; c++ {
				w.opBegin()
				zsimrt.Go("source", func() {
					defer w.opEnd()
					for k := 0; k < perSrc; k++ {
						// differing sizes, mostly several fragments
						part := p.InnerMTU - 24
						if part < 8 {
							part = 8
						}
						n := (1+st.Intn(12))*part + st.Intn(part)
						if st.Bool(1, 6) {
							n = st.Intn(part + 1)
						}
						if n > mtu {
							n = mtu
						}
						ctx, cf := context.WithTimeout(context.Background(), 10*time.Minute)
						w.TellOnce(ctx, ep, 0, 0, n)
						cf()
						if st.Bool(1, 3) {
							zsimrt.Sleep(simcore.Pick(st, time.Second, 9*time.Second, 15*time.Second, 70*time.Second))
						}
					}
				})
			}
		}
		w.WaitQuiet()
		// let straggling duplicates arrive across another GC period
		zsimrt.Sleep(75 * time.Second)
		w.WaitQuiet()
		w.Sim.ClockWeight = 0
		rcancel()
		for _, ep := range w.Eps {
			ep.Close()
		}
		w.Finished = true
	})
	fillStats(res, w)
	for _, e := range w.Led.Entries {
		if e.Delivered == 0 {
			continue
		}
		offs := arrived[e]
		asc, dup := true, false
		seen := map[int]bool{}
		for i, o := range offs {
			if i > 0 && o < offs[i-1] {
				asc = false
			}
			if seen[o] {
				dup = true
			}
			seen[o] = true
		}
		if len(offs) > 1 {
			res.Probe("reassembled-multi-fragment")
			if !asc {
				res.Probe("reassembled-out-of-order")
			}
			if dup {
				res.Probe("reassembled-with-duplicate-fragments")
			}
		}
		if e.Delivered > 1 {
			res.Probe("message-delivered-more-than-once")
		}
	}
	for _, e := range w.Led.Entries {
		if e.Delivered == 0 && len(arrived[e]) > 0 {
			res.Probe("incomplete-message-never-delivered")
		}
	}
	res.Nontrivial = res.Probes["reassembled-multi-fragment"] > 0 && len(res.Faults) > 0
	var sample []string
	for _, e := range w.Led.Entries {
		sample = append(sample, fmt.Sprintf("msg %d: %d->%d len=%d delivered=%d fragment offsets in arrival order=%v", e.ID, e.From, e.To, len(e.Payload), e.Delivered, head2(arrived[e], 14)))
	}
	res.Sample = head(sample, 10)
}

func head2(x []int, n int) []int {
	if len(x) > n {
		return x[:n]
	}
	return x
}
