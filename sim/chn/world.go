// Package chn simulates real p2pke.Channels under the parking scheduler: the
// harness is the transport (the simulated datagram network), the clock is the
// bubble's fake clock, every Send/Deliver/timer callback is a scheduled task.
// It serves C07 (liveness after the network heals, rotation, restart), C05
// (acceptance predicate, key stability) and the channel leg of C02.
package chn

import (
	"bytes"
	"context"
	"encoding/binary"
	"fmt"
	"hash/fnv"
	"time"

	"go.uber.org/zap"

	"go.brendoncarroll.net/p2p"
	"go.brendoncarroll.net/p2p/f/x509"
	"go.brendoncarroll.net/p2p/p/p2pke"
	"go.brendoncarroll.net/p2p/zsimrt"

	"verifsim/simcore"
	"verifsim/simnet"
)

var reg = x509.DefaultRegistry()
var nop = zap.NewNop()

func key(name string, i int) (x509.PrivateKey, x509.PublicKey) {
	seed := make([]byte, 32)
	copy(seed, name)
	binary.BigEndian.PutUint64(seed[24:], uint64(i)+4242)
	priv := x509.PrivateKey{Algorithm: x509.Algo_Ed25519, Data: seed}
	pub, err := reg.PublicFromPrivate(&priv)
	if err != nil {
		panic(err)
	}
	return priv, pub
}

type Timers struct {
	KeepAlive, Backoff, Rekey, Reject time.Duration
}

// Side is one end: a real Channel attached to a node of the simulated network.
type Side struct {
	W      *World
	Name   string
	Priv   x509.PrivateKey
	Pub    x509.PublicKey
	Node   *simnet.Node
	Peer   simnet.Addr
	Ch     *p2pke.Channel
	Accept func(*x509.PublicKey) bool
	Gen    int // incremented on restart

	Sent     map[string]bool // plaintexts passed to Send that returned nil (or may have been sent)
	Tried    map[string]bool // plaintexts passed to Send at all
	Got      map[string]int
	GotGen   map[string]int
	Emitted  int
	Hellos   []time.Duration // times at which this side emitted an InitHello
	pumpStop context.CancelFunc
	firstKey []byte
	// LastHS is the counter of the last handshake message this side emitted (0 InitHello,
	// 1 RespHello, 2 InitDone, 3 RespDone), -1 once a RespDone came in: 0..2 = a handshake
	// of this side is in progress
	LastHS int
	// HSOut logs every handshake message this side emitted (any generation of its channel)
	HSOut []HSEmit
}

type HSEmit struct {
	At      time.Duration
	Counter int
	Sum     uint64
	Gen     int
}

type SendRec struct {
	Side     *Side
	Gen      int
	Plain    string
	Start    time.Duration
	StartStp int
	End      time.Duration
	Returned bool
	Err      error
	Overdue  bool
	Deadline time.Duration // bound by which it must have returned (0 = none yet)
}

type World struct {
	Sim   *zsimrt.Sim
	St    *simcore.Stream
	Res   *simcore.Result
	Net   *simnet.Net
	T     Timers
	Sides []*Side
	Sends []*SendRec
	Wire  [][]byte // every byte string handed to a Send callback
	nextP int

	active   int
	Quiesced bool
	Finished bool
	OnIdleX  func() // extra checks at quiescent points
}

func NewWorld(st *simcore.Stream, res *simcore.Result, logOn bool) *World {
	sim := zsimrt.New(st)
	sim.LogOn = logOn
	w := &World{Sim: sim, St: st, Res: res}
	w.Net = simnet.New(sim, st, 4096)
	sim.Env = w.Net.Actions
	sim.OnIdle = func() int {
		if w.OnIdleX != nil {
			w.OnIdleX()
		}
		if w.Finished {
			return zsimrt.IdleStop
		}
		if w.active == 0 && !w.Quiesced {
			w.Quiesced = true
			return zsimrt.IdleRetry
		}
		return zsimrt.IdleAdvance
	}
	return w
}

func (w *World) WaitQuiet() {
	w.Quiesced = false
	zsimrt.WaitUntil("harness/wait-quiet", func() bool { return w.Quiesced })
}

func (w *World) step() int { return w.Sim.Step }

func (w *World) DrawTimers() {
	st := w.St
	w.T = Timers{
		KeepAlive: simcore.Pick(st, time.Second, 2*time.Second, 3*time.Second),
		Backoff:   simcore.Pick(st, 50*time.Millisecond, 100*time.Millisecond, 250*time.Millisecond),
		Rekey:     simcore.Pick(st, time.Second, 2*time.Second, 4*time.Second),
		Reject:    simcore.Pick(st, 2*time.Second, 4*time.Second, 8*time.Second),
	}
	if w.T.Reject <= w.T.Rekey {
		w.T.Reject = 2 * w.T.Rekey
	}
}

func (w *World) NewSide(name string, keyIdx int, accept func(*x509.PublicKey) bool) *Side {
	priv, pub := key(name, keyIdx)
	s := &Side{W: w, Name: name, Priv: priv, Pub: pub, Accept: accept, Sent: map[string]bool{}, Tried: map[string]bool{}, Got: map[string]int{}, GotGen: map[string]int{}, LastHS: -1}
	s.Node = w.Net.NewNode()
	w.Sides = append(w.Sides, s)
	return s
}

// Start creates the real Channel and the pump task that feeds it from the network.
func (s *Side) Start() {
	w := s.W
	// the constructor takes locks (scheduling points): build the new channel first,
	// then swap channel and generation together
	myGen := s.Gen
	if s.Ch != nil {
		myGen++
	}
	newCh := p2pke.NewChannel(p2pke.ChannelConfig{
		Registry:   reg,
		PrivateKey: s.Priv,
		Logger:     nop,
		AcceptKey: func(k *x509.PublicKey) bool {
			if s.Accept == nil {
				return true
			}
			return s.Accept(k)
		},
		Send: func(x []byte) {
			if s.Ch != nil && myGen < s.Gen {
				// the process this channel object lived in is gone: nothing it does reaches the network
				return
			}
			s.Emitted++
			if len(x) >= 4 && binary.BigEndian.Uint32(x[:4]) < 4 {
				s.LastHS = int(binary.BigEndian.Uint32(x[:4]))
				h := fnv.New64a()
				h.Write(x)
				s.HSOut = append(s.HSOut, HSEmit{At: w.Sim.Now(), Counter: s.LastHS, Sum: h.Sum64(), Gen: myGen})
			}
			w.Wire = append(w.Wire, append([]byte{}, x...))
			if p2pke.IsInitHello(x) {
				s.Hellos = append(s.Hellos, w.Sim.Now())
			}
			if w.Sim.LogOn && len(x) >= 4 {
				w.Sim.Logf("WIRE %s emits counter=%d len=%d id=%x", s.Name, binary.BigEndian.Uint32(x[:4]), len(x), x[len(x)-4:])
			}
			s.Node.Tell(context.Background(), s.Peer, p2p.IOVec{x})
		},
		KeepAliveTimeout: w.T.KeepAlive,
		HandshakeBackoff: w.T.Backoff,
		RekeyAfterTime:   w.T.Rekey,
		RejectAfterTime:  w.T.Reject,
	})
	if s.Ch != nil {
		s.Gen++
		s.firstKey = nil
		s.LastHS = -1
	}
	s.Ch = newCh
	ctx, cf := context.WithCancel(context.Background())
	s.pumpStop = cf
	ch, gen := s.Ch, s.Gen
	zsimrt.Go("pump-"+s.Name, func() {
		for {
			err := s.Node.Receive(ctx, func(m p2p.Message[simnet.Addr]) {
				in := append([]byte{}, m.Payload...)
				out, err := ch.Deliver(nil, in)
				if len(in) >= 4 && binary.BigEndian.Uint32(in[:4]) == 3 && err == nil && gen == s.Gen {
					s.LastHS = -1
				}
				if w.Sim.LogOn && len(in) >= 4 {
					w.Sim.Logf("WIRE %s got counter=%d id=%x -> app=%v err=%v", s.Name, binary.BigEndian.Uint32(in[:4]), in[len(in)-4:], out != nil, err)
				}
				w.onDeliver(s, gen, ch, out, err)
				// the transport reuses its receive buffer once the callback returns: a channel
				// (or session) that kept a reference to its input is found out
				for i := range in {
					in[i] = 0xA5
				}
			})
			if err != nil {
				return
			}
		}
	})
}

// Restart replaces the Channel by a fresh one with the same key and address:
// nothing in this library is durable, so that is what a process restart is.
func (s *Side) Restart() {
	s.pumpStop()
	old := s.Ch
	s.Start()
	zsimrt.Go("close-old-"+s.Name, func() { old.Close() })
	s.W.Res.Fault("peer-restart")
}

func keyBytes(k x509.PublicKey) []byte {
	if k.IsZero() {
		return nil
	}
	return x509.MarshalPublicKey(nil, &k)
}

// keyStable: once non-zero, RemoteKey() of one Channel object never changes (C05).
func (w *World) keyStable(s *Side, ch *p2pke.Channel, gen int) {
	kb := keyBytes(ch.RemoteKey()) // a scheduling point: a restart may replace the channel meanwhile
	if gen != s.Gen {
		return
	}
	if kb == nil {
		if s.firstKey != nil {
			w.Res.Violate(w.step(), "remote-key-changed", "channel %s: RemoteKey() went back to zero", s.Name)
		}
		return
	}
	w.Res.Checks++
	if s.firstKey == nil {
		s.firstKey = kb
	} else if !bytes.Equal(s.firstKey, kb) {
		w.Res.Violate(w.step(), "remote-key-changed", "channel %s: RemoteKey() changed after it had been established", s.Name)
	}
}

// acceptedOK: whenever the channel is usable its RemoteKey satisfies the predicate (C05).
func (w *World) acceptedOK(s *Side, ch *p2pke.Channel, why string) {
	rk := ch.RemoteKey()
	w.Res.Checks++
	if rk.IsZero() {
		w.Res.Violate(w.step(), "usable-with-zero-remote-key", "channel %s is usable (%s) but RemoteKey() is zero", s.Name, why).With("why", why)
		return
	}
	if s.Accept != nil && !s.Accept(&rk) {
		w.Res.Violate(w.step(), "usable-with-rejected-key", "channel %s is usable (%s) with a remote key its acceptance predicate rejects (%s)", s.Name, why, w.ownerOf(rk)).With("why", why)
	}
}

func (w *World) ownerOf(k x509.PublicKey) string {
	for _, s := range w.Sides {
		if x509.EqualPublicKeys(&s.Pub, &k) {
			return "the key of " + s.Name
		}
	}
	return "an unknown key"
}

func (w *World) peerOf(s *Side) *Side {
	for _, o := range w.Sides {
		if o.Node.LocalAddr() == s.Peer {
			return o
		}
	}
	return nil
}

// onDeliver: oracles on what Channel.Deliver returned.
func (w *World) onDeliver(s *Side, gen int, ch *p2pke.Channel, out []byte, err error) {
	w.keyStable(s, ch, gen)
	if out == nil {
		return
	}
	res := w.Res
	res.Checks++
	res.Probe("app-data-delivered")
	w.acceptedOK(s, ch, "Deliver returned data")
	// C02: authentic (given to Send by the authenticated peer), at most once per channel object
	rk := ch.RemoteKey()
	var from *Side
	for _, o := range w.Sides {
		if x509.EqualPublicKeys(&o.Pub, &rk) {
			from = o
		}
	}
	pt := string(out)
	switch {
	case from == nil || !from.Tried[pt]:
		who := "nobody"
		if from != nil {
			who = from.Name
		}
		res.Violate(w.step(), "plaintext-not-from-peer", "channel %s handed %q to the application; its authenticated peer (%s) never passed that to Send", s.Name, trunc(out), who)
	default:
		key := fmt.Sprintf("%d/%s", gen, pt)
		s.Got[key]++
		if s.Got[key] > 1 {
			res.Violate(w.step(), "delivered-twice", "channel %s (one channel object) handed the same plaintext to the application %d times", s.Name, s.Got[key])
		}
	}
}

func trunc(b []byte) []byte {
	if len(b) > 24 {
		return b[:24]
	}
	return b
}

// Send performs one Channel.Send with a unique plaintext.
func (w *World) Send(s *Side, ctx context.Context) *SendRec {
	w.nextP++
	n := 8 + w.St.Intn(40)
	pt := make([]byte, n)
	w.St.Bytes(pt)
	copy(pt, fmt.Sprintf("PT%05d:", w.nextP))
	rec := &SendRec{Side: s, Gen: s.Gen, Plain: string(pt), Start: w.Sim.Now(), StartStp: w.step()}
	w.Sends = append(w.Sends, rec)
	s.Tried[string(pt)] = true
	ch, gen := s.Ch, s.Gen
	w.active++
	zsimrt.Yield("harness/before-send")
	buf := append([]byte{}, pt...)
	rec.Err = ch.Send(ctx, p2p.IOVec{buf[:n/2], buf[n/2:]})
	rec.Returned, rec.End = true, w.Sim.Now()
	w.active--
	if !bytes.Equal(buf, pt) {
		w.Res.Violate(w.step(), "sender-buffer-modified", "Channel.Send modified the caller's buffer")
	}
	if rec.Err == nil {
		s.Sent[string(pt)] = true
		w.Res.Probe("send-ok")
		w.acceptedOK(s, ch, "Send returned nil")
		w.keyStable(s, ch, gen)
	} else {
		w.Res.Probe("send-error")
	}
	return rec
}

// FinalWire: no application plaintext ever appears on the transport (C02 (4)).
func (w *World) FinalWire() {
	for _, s := range w.Sides {
		for pt := range s.Tried {
			for _, x := range w.Wire {
				w.Res.Checks++
				if bytes.Contains(x, []byte(pt)) {
					w.Res.Violate(w.step(), "plaintext-on-wire", "a message handed to the transport contains an application plaintext")
					return
				}
			}
		}
	}
}

func FillStats(res *simcore.Result, w *World) {
	sim := w.Sim
	res.Steps = sim.Step
	res.SimMs = sim.Now().Milliseconds()
	res.TraceHash = fmt.Sprintf("%016x", sim.TraceHash)
	res.NBigrams = len(sim.Bigrams)
	for k := range sim.Bigrams {
		if len(res.Bigrams) >= 64 {
			break
		}
		res.Bigrams = append(res.Bigrams, k)
	}
	res.ProbeN("multi-runnable-steps", sim.Stats.MultiRunnable)
	if sim.Stats.AnonTasks > 0 {
		res.ProbeN("unidentified-tasks", sim.Stats.AnonTasks)
	}
	if sim.Stats.HitStepCap {
		res.Probe("hit-step-cap")
	}
	if sim.Stats.HitTimeCap {
		res.Probe("hit-time-cap")
	}
	if !w.Finished {
		res.Probe("run-unfinished")
	}
	for k, v := range w.Net.Fired {
		res.FaultN("net-"+k, v)
	}
	if sim.LogOn {
		res.Log = sim.Log
	}
}
