package chn

import (
	"context"
	"fmt"
	"os"
	"strings"
	"time"

	"go.brendoncarroll.net/p2p/zsimrt"

	"verifsim/simcore"
	"verifsim/simnet"
)

// LivenessIntervals is the bound of C07: after the transport has become reliable
// a pending Send completes within this many handshake-backoff intervals. It is a
// parameter of the check (DESIGN.md §5.1), not derived from the code.
const LivenessIntervals = 8

// RunC07 legs:
//
//	heal    adversarial prefix over the channel's own messages, then prompt in-order loss-free delivery
//	steady  established channel under steady two-way traffic across rekeys
//	restart the peer restarts with a fresh Channel at a seeded point of the handshake
func RunC07(st *simcore.Stream, tier, leg string, logOn bool, res *simcore.Result) {
	w := NewWorld(st, res, logOn)
	w.DrawTimers()
	if leg == "steady" {
		w.T.KeepAlive = time.Second
		w.T.Rekey = simcore.Pick(st, 4*time.Second, 6*time.Second, 8*time.Second)
		w.T.Reject = 3 * w.T.Rekey
	}
	w.Sim.MaxSteps = 200000
	w.Sim.MaxTime = 3 * time.Hour
	T := w.T
	a := w.NewSide("A", 1, nil)
	b := w.NewSide("B", 2, nil)
	a.Peer, b.Peer = b.Node.LocalAddr(), a.Node.LocalAddr()
	res.Cfg = map[string]any{"leg": leg, "keepAlive": T.KeepAlive.String(), "backoff": T.Backoff.String(), "rekey": T.Rekey.String(), "reject": T.Reject.String()}
	bound := LivenessIntervals * T.Backoff
	healed := false
	var healAt time.Duration
	overdueStep := map[*SendRec]int{}
	restarted := false
	var restartedSide *Side
	var restartAt time.Duration
	// KF2's signature on the wire: after the restart the survivor keeps retransmitting one and the
	// same InitHello, RespHello or InitDone (a handshake it began with the old incarnation)
	survivorStuckInOldHandshake := func() bool {
		if restartedSide == nil {
			return false
		}
		n := map[uint64]int{}
		for _, e := range w.peerOf(restartedSide).HSOut {
			if e.At >= restartAt && e.Counter <= 2 {
				n[e.Sum]++
				if n[e.Sum] >= 3 {
					return true
				}
			}
		}
		return false
	}

	// KF4's signature on the wire: after the network healed, a side keeps retransmitting one and the
	// same RespHello: it answers a handshake which the peer has given up (for a newer hello of its
	// own, or because it restarted), and nobody takes the initiative until a session expires
	responderAnswersAbandonedHandshake := func() bool {
		for _, sd := range w.Sides {
			n := map[uint64]int{}
			for _, e := range sd.HSOut {
				if e.At >= healAt && e.Counter == 1 && e.Gen == sd.Gen {
					n[e.Sum]++
					if n[e.Sum] >= 3 {
						return true
					}
				}
			}
		}
		return false
	}

	// the fresh incarnation keeps retransmitting one and the same InitDone: it is in the middle of a
	// handshake which the survivor answered and then does not complete (not KF2, KF4 or KF5: there
	// the fresh side never gets as far as an InitDone)
	restartedSideRetransmitsInitDone := func() bool {
		if restartedSide == nil {
			return false
		}
		first := map[uint64]time.Duration{}
		for _, e := range restartedSide.HSOut {
			if e.At >= restartAt && e.Counter == 2 && e.Gen == restartedSide.Gen {
				if t0, ok := first[e.Sum]; !ok {
					first[e.Sum] = e.At
				} else if e.At-t0 >= 3*T.Backoff {
					// the same InitDone again, three handshake intervals later (copies sent at one
					// instant in reply to duplicated RespHellos do not count)
					return true
				}
			}
		}
		return false
	}

	// at every quiescent point: a Send that is past its bound must have returned
	w.OnIdleX = func() {
		if !healed {
			return
		}
		now := w.Sim.Now()
		for _, r := range w.Sends {
			if r.Returned || r.Overdue {
				continue
			}
			from := r.Start
			if healAt > from {
				from = healAt
			}
			if r.Gen != r.Side.Gen {
				continue // the channel object it was called on has been replaced by a restart
			}
			if now > from+bound {
				// reported at the end of the run, when it is known whether it ever recovered
				r.Overdue = true
				r.Deadline = from + bound
				overdueStep[r] = w.step()
			}
		}
	}

	w.Sim.Run(func() {
		a.Start()
		b.Start()
		switch leg {
		case "heal":
			w.Net.Faults = simnet.Faults{Drop: 1 + st.Intn(3), Dup: st.Intn(2), Reorder: st.Intn(4)}
			w.Sim.ClockWeight = 1 + st.Intn(2)
			w.Sim.ClockQuanta = []time.Duration{time.Millisecond, T.Backoff / 2, T.Backoff, 2 * T.Backoff, T.KeepAlive / 2, T.Rekey / 2}
			k := 1 + st.Intn(8)
			res.Cfg["prefixMessages"] = k
			res.Cfg["faults"] = fmt.Sprintf("%+v", w.Net.Faults)
			for _, s := range []*Side{a, b} {
				n := st.Intn(3)
				if s == a && n == 0 {
					n = 1
				}
				for i := 0; i < n; i++ {
					delay := st.Intn(30)
					zsimrt.Go("sender", func() {
						for j := 0; j < delay; j++ {
							zsimrt.Yield("harness/send-wait")
						}
						w.Send(s, context.Background())
					})
				}
			}
			// adversarial prefix: until k of the channel's messages have been handled by the network
			handled := func() int {
				return w.Net.Delivered + w.Net.Fired["drop"] + w.Net.Fired["to-closed"]
			}
			zsimrt.WaitUntil("harness/prefix", func() bool { return handled() >= k || w.Sim.Now() > 3*T.Reject })
			// the switch: from now on prompt, in-order, loss-free
			w.Net.FaultsOff = true
			w.Sim.ClockWeight = 0
			healed, healAt = true, w.Sim.Now()
			res.Probe("healed")
			zsimrt.Sleep(bound + 4*T.Backoff)
			// a Send started on the healed network must complete within the bound as well
			zsimrt.Go("late-sender", func() { w.Send(a, context.Background()) })
			zsimrt.Sleep(bound + 4*T.Backoff)
		case "restart":
			w.Sim.ClockWeight = 0
			// A has a pending Send; B restarts after j messages of the handshake were delivered
			j := st.Intn(6)
			res.Cfg["restartAfterMessages"] = j
			waitOnly := st.Bool(1, 3) || os.Getenv("SIM_FORCE") == "m3"
			res.Cfg["initiatorOnlyWaitsReady"] = waitOnly
			if waitOnly {
				// the initiator establishes the channel without ever sending data through it
				zsimrt.Go("waiter", func() {
					ctx, cf := context.WithTimeout(context.Background(), 2*T.Reject)
					defer cf()
					if a.Ch.WaitReady(ctx) == nil {
						res.Probe("waitready-ok")
					}
				})
			} else {
				zsimrt.Go("sender", func() { w.Send(a, context.Background()) })
			}
			if st.Bool(1, 2) {
				zsimrt.Go("sender", func() { w.Send(b, context.Background()) })
			}
			// which side is replaced, and when: in the middle of the handshake (after j delivered
			// messages) or some time after the channel was established (data may or may not have flowed)
			victim := b
			if st.Bool(1, 3) {
				victim = a
			}
			late := st.Bool(1, 3)
			if os.Getenv("SIM_FORCE") == "m3" { // development aid
				victim, late, j = a, true, 4
			}
			res.Cfg["restartedSide"], res.Cfg["restartAfterEstablishment"] = victim.Name, late
			zsimrt.WaitUntil("harness/until-restart", func() bool { return w.Net.Delivered >= j || w.Sim.Now() > 3*T.Reject })
			if late {
				zsimrt.Sleep(simcore.Pick(st, T.Backoff, T.KeepAlive/2, T.Rekey/2))
			}
			restartAt = w.Sim.Now()
			victim.Restart()
			restarted = true
			restartedSide = victim
			w.Net.FaultsOff = true
			healed, healAt = true, w.Sim.Now()
			res.Probe("healed")
			if st.Bool(1, 2) {
				// the fresh incarnation has something to say at once: it initiates towards a peer
				// that may still hold sessions of the old incarnation
				zsimrt.Go("restarted-sender", func() { w.Send(victim, context.Background()) })
			}
			zsimrt.Sleep(bound + 4*T.Backoff)
			zsimrt.Go("late-sender", func() { w.Send(w.peerOf(victim), context.Background()) })
			if st.Bool(1, 2) {
				zsimrt.Go("late-sender-restarted-side", func() { w.Send(victim, context.Background()) })
			}
			// run past the expiry of every session that existed at the restart, to see
			// whether a stalled Send at least recovers then
			zsimrt.Sleep(T.Reject + T.KeepAlive + 2*bound)
			pending := false
			for _, r := range w.Sends {
				if !r.Returned {
					pending = true
				}
			}
			if pending {
				// a second expiry round (KF5 needs it to tell "late" from "never")
				zsimrt.Sleep(T.Reject + T.KeepAlive + 2*bound)
			}
		case "steady":
			w.Net.FaultsOff = true
			w.Sim.ClockWeight = 0
			healed = true
			// who talks: both sides, or one side only (then the other never sends data through
			// any session; when that is the initiator it only ever called WaitReady)
			talkers := simcore.Pick(st, []*Side{a, b}, []*Side{a, b}, []*Side{a}, []*Side{b})
			res.Cfg["talkers"] = len(talkers)
			if len(talkers) == 1 && talkers[0] == b {
				ctx, cf := context.WithTimeout(context.Background(), bound)
				if err := a.Ch.WaitReady(ctx); err != nil {
					res.Violate(w.step(), "send-failed-on-reliable-network", "the first WaitReady on a reliable network failed: %v", err).With("leg", leg)
				}
				cf()
				res.Cfg["initiatorOnlyWaitsReady"] = true
			} else {
				first := w.Send(a, context.Background())
				if first.Err != nil {
					res.Violate(w.step(), "send-failed-on-reliable-network", "the first Send on a reliable network failed: %v", first.Err).With("leg", leg)
				}
			}
			// steady traffic spaced at less than half the keep-alive
			window := time.Duration(simcore.Pick(st, 3, 5, 7)) * T.Rekey
			gap := T.KeepAlive / 3
			res.Cfg["window"] = window.String()
			startHellos := len(a.Hellos) + len(b.Hellos)
			t0 := w.Sim.Now()
			for w.Sim.Now() < t0+window {
				for _, s := range talkers {
					ctx, cf := context.WithTimeout(context.Background(), bound)
					r := w.Send(s, ctx)
					cf()
					if r.Err != nil {
						res.Violate(w.step(), "send-failed-on-reliable-network", "Send on %s failed under steady traffic on a reliable network at t=%v (session age %v): %v", s.Name, w.Sim.Now(), w.Sim.Now()-t0, r.Err).With("leg", leg)
					}
				}
				zsimrt.Sleep(gap)
			}
			hellos := len(a.Hellos) + len(b.Hellos) - startHellos
			allowed := 2 * (int(window/T.Rekey) + 2)
			res.Checks++
			res.ProbeN("hellos-under-steady-traffic", hellos)
			// (the idleness clause is about a session that keeps RECEIVING: with one-way traffic the
			// talking side hears nothing and may legitimately renew its session every keep-alive period)
			if hellos > allowed && len(talkers) == 2 {
				res.Violate(w.step(), "too-many-handshakes", "%d InitHello messages were emitted during %v of steady two-way traffic (a message every %v, keep-alive %v); the rekey period of %v explains at most %d", hellos, window, gap, T.KeepAlive, T.Rekey, allowed).With("leg", leg)
			}
		}
		healed = true
		w.WaitQuietOrTimeout(4 * bound)
		// everything that was sent successfully on the reliable transport must have arrived
		for _, r := range w.Sends {
			// (only across rekeys of an established channel: after loss or a restart the
			// two sides may disagree about the session for a while, and a Send that
			// returned nil says nothing about delivery)
			if leg == "steady" && r.Returned && r.Err == nil && r.End > healAt && r.Gen == r.Side.Gen {
				peer := w.peerOf(r.Side)
				res.Checks++
				found := false
				for k := range peer.Got {
					if strings.HasSuffix(k, "/"+r.Plain) {
						found = true
					}
				}
				if !found {
					res.Violate(w.step(), "sent-but-not-delivered", "Send on %s returned nil at t=%v on the reliable transport but the peer never received the message", r.Side.Name, r.End).With("leg", leg)
				} else {
					res.Probe("sent-and-delivered-after-heal")
				}
			}
			if r.Returned && r.Err != nil && r.Start >= healAt && leg != "steady" {
				res.Violate(w.step(), "send-failed-on-reliable-network", "Send on %s started on the reliable transport failed: %v", r.Side.Name, r.Err).With("leg", leg)
			}
		}
		for _, r := range w.Sends {
			if !r.Overdue {
				continue
			}
			// did it at least complete once every session that existed at the restart had expired?
			from := healAt
			if r.Start > from {
				from = r.Start
			}
			recovered := r.Returned && r.Err == nil && r.End <= from+T.Reject+T.KeepAlive+bound
			recovered2 := r.Returned && r.Err == nil && r.End <= from+2*(T.Reject+T.KeepAlive)+bound
			res.Violate(overdueStep[r], "send-stuck-after-heal", "Send on %s (pending since t=%v) had not returned %d handshake intervals of %v after the transport became reliable at t=%v (returned=%v at t=%v)", r.Side.Name, r.Start, LivenessIntervals, T.Backoff, healAt, r.Returned, r.End).
				With("leg", leg).With("side", r.Side.Name).
				With("peerRestarted", restarted).
				With("survivorKeepsRetransmittingAnUnfinishedHandshake", survivorStuckInOldHandshake()).
				With("aResponderKeepsAnsweringAHandshakeThePeerGaveUp", responderAnswersAbandonedHandshake()).
				With("restartedSideRetransmitsInitDone", restartedSideRetransmitsInitDone()).
				With("sendOnRestartedSide", restartedSide != nil && r.Side == restartedSide && r.Gen == r.Side.Gen).
				With("recoveredOnceOldSessionsExpired", recovered).
				With("recoveredWithinTwoExpiryRounds", recovered2)
		}
		w.FinalWire()
		w.Finished = true
	})
	FillStats(res, w)
	if w.Sim.Stats.HitStepCap && !w.Finished {
		// the run never reached its judgement: the channels kept each other busy. With the
		// network reliable that is a livelock of the protocol, not slowness (simulated time
		// does not pass while messages are answered at once).
		na, nb := a.Emitted, b.Emitted
		res.Violate(res.Steps, "message-storm", "the run hit the step cap of %d scheduling steps at t=%v with the two channels still answering each other (A emitted %d messages, B %d) and %d Sends pending: the handshake does not converge", w.Sim.MaxSteps, w.Sim.Now(), na, nb, w.active).With("leg", leg)
	}
	// C07 decides liveness; safety classes of C02/C05 are reported by their own checks
	var keep []simcore.Violation
	for _, v := range res.Violations {
		switch v.Class {
		case "send-stuck-after-heal", "too-many-handshakes", "send-failed-on-reliable-network", "sent-but-not-delivered", "message-storm":
			keep = append(keep, v)
		default:
			if os.Getenv("SIM_KEEP_ALL") != "" { // development aid: see the other properties' events with their replay
				keep = append(keep, v)
			}
			res.Probe("other-property-violation-seen:" + v.Class)
		}
	}
	res.Violations = keep
	res.Nontrivial = res.Probes["send-ok"] > 0 && (leg == "steady" || len(res.Faults) > 0)
	var sample []string
	for _, r := range w.Sends {
		sample = append(sample, fmt.Sprintf("send on %s gen=%d start=%v returned=%v end=%v err=%v", r.Side.Name, r.Gen, r.Start, r.Returned, r.End, r.Err))
	}
	if len(sample) > 12 {
		sample = sample[:12]
	}
	res.Sample = sample
}

func firstSend(w *World) time.Duration {
	if len(w.Sends) == 0 {
		return 0
	}
	m := w.Sends[0].Start
	for _, r := range w.Sends {
		if r.Start < m {
			m = r.Start
		}
	}
	return m
}

// WaitQuietOrTimeout waits until the system is quiescent with no Send pending,
// or until d of simulated time has passed.
func (w *World) WaitQuietOrTimeout(d time.Duration) {
	end := w.Sim.Now() + d
	w.Quiesced = false
	for !w.Quiesced && w.Sim.Now() < end {
		zsimrt.Sleep(d / 8)
	}
}
