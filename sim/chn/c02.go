package chn

import (
	"context"
	"encoding/binary"
	"fmt"
	"time"

	"go.uber.org/zap"

	"go.brendoncarroll.net/p2p/f/x509"
	"go.brendoncarroll.net/p2p/p/p2pke"

	"go.brendoncarroll.net/p2p/zsimrt"

	"verifsim/simcore"
	"verifsim/simnet"
)

// RunC02 is the channel-level leg of C02: two real p2pke.Channels with several
// concurrent senders per side, across session rotation (short rekey / reject
// timers) and optionally a restart of one side, over a network that loses,
// duplicates, reorders and corrupts, with an active replayer that re-injects any
// datagram ever sent — to its original destination, reflected to its sender, or
// long after the session it belonged to was rotated out.
//
// Oracles (world.go onDeliver / Send / FinalWire): every plaintext a channel
// hands to the application was passed to Send by the party holding the key the
// channel reports as RemoteKey, at most once per channel object; the sender's
// buffers are not modified; no plaintext appears on the wire.
//
//	legs: chan-replay (no restart), chan-restart (one side is replaced by a fresh Channel mid-run),
//	chan-sess-concurrent (several tasks call Session.Send on ONE established Session concurrently)
func RunC02(st *simcore.Stream, tier, leg string, logOn bool, res *simcore.Result) {
	if leg == "chan-sess-concurrent" {
		runSessConcurrent(st, logOn, res)
		return
	}
	w := NewWorld(st, res, logOn)
	w.DrawTimers()
	w.Sim.MaxSteps = 300000
	w.Sim.MaxTime = 3 * time.Hour
	w.Sim.ClockWeight = 1
	T := w.T
	w.Sim.ClockQuanta = []time.Duration{time.Millisecond, T.Backoff / 2, T.Backoff, T.KeepAlive / 2, T.Rekey / 2, T.Rekey}
	a := w.NewSide("A", 1, nil)
	b := w.NewSide("B", 2, nil)
	a.Peer, b.Peer = b.Node.LocalAddr(), a.Node.LocalAddr()
	w.Net.Faults = simnet.Faults{Drop: st.Intn(2), Dup: st.Intn(2), Reorder: st.Intn(3), Corrupt: st.Intn(2)}
	replayRate := simcore.Pick(st, 0, 2, 4, 8) // out of 16 per opportunity
	nSenders := 1 + st.Intn(3)
	perSender := 2 + st.Intn(6)
	gap := simcore.Pick(st, time.Millisecond, T.Backoff, T.KeepAlive/2, T.Rekey/2, T.Rekey)
	res.Cfg = map[string]any{"leg": leg, "backoff": T.Backoff.String(), "rekey": T.Rekey.String(), "reject": T.Reject.String(), "keepAlive": T.KeepAlive.String(),
		"faults": fmt.Sprintf("%+v", w.Net.Faults), "replayRate16": replayRate, "sendersPerSide": nSenders, "perSender": perSender, "gap": gap.String()}

	// the replayer's archive: every datagram ever handed to the network
	type rec struct {
		src, dst simnet.Addr
		data     []byte
		at       time.Duration
	}
	var archive []rec
	w.Net.OnTell = func(p *simnet.Pkt) {
		if len(archive) < 4000 {
			archive = append(archive, rec{p.Src, p.Dst, append([]byte{}, p.Data...), w.Sim.Now()})
		}
	}
	replay := func() {
		if len(archive) == 0 {
			return
		}
		r := archive[st.Intn(len(archive))]
		age := w.Sim.Now() - r.at
		switch st.Intn(4) {
		case 0:
			// reflected to its sender
			w.Net.Inject(r.dst, r.src, r.data)
			res.Fault("replay-reflected")
		default:
			w.Net.Inject(r.src, r.dst, r.data)
			if age > T.Rekey {
				res.Fault("replay-older-than-a-rekey-period")
			} else {
				res.Fault("replay-recent")
			}
		}
	}

	w.Sim.Run(func() {
		a.Start()
		b.Start()
		done, want := 0, 0
		for _, s := range []*Side{a, b} {
			for k := 0; k < nSenders; k++ {
				want++
				zsimrt.Go("sender-"+s.Name, func() {
					for i := 0; i < perSender; i++ {
						ctx, cf := context.WithTimeout(context.Background(), 2*T.Reject)
						w.Send(s, ctx)
						cf()
						if st.Intn(16) < replayRate {
							replay()
						}
						zsimrt.Sleep(gap)
					}
					done++
				})
			}
		}
		stopReplayer := false
		zsimrt.Go("replayer", func() {
			for !stopReplayer {
				zsimrt.Sleep(simcore.Pick(st, T.Backoff, T.KeepAlive/2, T.Rekey, T.Reject))
				if st.Intn(16) < replayRate {
					for k := 0; k < 1+st.Intn(4); k++ {
						replay()
					}
				}
			}
		})
		if leg == "chan-restart" {
			zsimrt.Go("restarter", func() {
				zsimrt.Sleep(simcore.Pick(st, T.Backoff, T.Rekey/2, T.Rekey+T.Backoff, T.Reject))
				s := simcore.Pick(st, a, b)
				s.Restart()
				// everything the old incarnation's peer still has in flight, and the whole
				// archive, now reaches a channel object that never saw those sessions
				for k := 0; k < st.Intn(6); k++ {
					replay()
				}
			})
		}
		zsimrt.WaitUntil("harness/senders-done", func() bool { return done >= want })
		// drain: let the network deliver what is in flight, replay a last burst of old traffic
		for k := 0; k < st.Intn(8); k++ {
			replay()
		}
		stopReplayer = true
		w.Net.Faults = simnet.Faults{Dup: w.Net.Faults.Dup, Reorder: w.Net.Faults.Reorder}
		zsimrt.Sleep(T.Backoff)
		w.WaitQuietOrTimeout(2 * T.Reject)
		w.FinalWire()
		w.Finished = true
	})
	FillStats(res, w)
	var keep []simcore.Violation
	for _, v := range res.Violations {
		switch v.Class {
		case "plaintext-not-from-peer", "delivered-twice", "plaintext-on-wire", "sender-buffer-modified", "counter-reused":
			keep = append(keep, v)
		default:
			res.Probe("other-property-violation-seen:" + v.Class)
		}
	}
	res.Violations = keep
	res.Nontrivial = res.Probes["app-data-delivered"] > 0 && len(res.Faults) > 0 && w.Sim.Stats.MultiRunnable > 0
	var sample []string
	for _, r := range w.Sends {
		sample = append(sample, fmt.Sprintf("send on %s gen=%d start=%v returned=%v err=%v", r.Side.Name, r.Gen, r.Start, r.Returned, r.Err))
	}
	if len(sample) > 10 {
		sample = sample[:10]
	}
	res.Sample = sample
}

// runSessConcurrent: p2pke.Session is an exported type whose Send is meant to be
// callable from several goroutines (atomic outbound counter). Two real Sessions
// complete a handshake, then 2-4 tasks call Send on the same Session under the
// parking scheduler (which interleaves at every atomic operation). Oracle: no
// two emitted messages carry the same counter, and the peer decrypts every one
// of them to the plaintext that was passed to that Send, exactly once.
func runSessConcurrent(st *simcore.Stream, logOn bool, res *simcore.Result) {
	w := NewWorld(st, res, logOn)
	w.Sim.MaxSteps = 50000
	privA, _ := key("A", 1)
	privB, _ := key("B", 2)
	nTasks := 2 + st.Intn(3)
	per := 1 + st.Intn(6)
	both := st.Bool(1, 2)
	res.Cfg = map[string]any{"leg": "chan-sess-concurrent", "tasks": nTasks, "perTask": per, "bothDirections": both}
	type sent struct {
		from  int
		plain string
		wire  []byte
	}
	var wires []sent
	done, want, np := 0, 0, 0
	w.Sim.Run(func() {
		now := time.Now()
		mk := func(priv x509.PrivateKey, isInit bool) *p2pke.Session {
			return p2pke.NewSession(p2pke.SessionConfig{Registry: reg, PrivateKey: priv, IsInit: isInit, Now: now, RejectAfter: time.Hour, Logger: zap.NewNop()})
		}
		ss := []*p2pke.Session{mk(privA, true), mk(privB, false)}
		// lossless in-order handshake
		msg := ss[0].Handshake(nil)
		for turn, n := 1, 0; msg != nil && n < 8; turn, n = 1-turn, n+1 {
			_, out, err := ss[turn].Deliver(nil, msg, now)
			if err != nil {
				panic(err)
			}
			msg = out
		}
		if !ss[0].IsReady() || !ss[1].IsReady() {
			// the responder becomes ready with the first data: send one message each way sequentially
			for i := 0; i < 2; i++ {
				if out, err := ss[i].Send(nil, []byte("warm-up"), now); err == nil {
					ss[1-i].Deliver(nil, out, now)
				}
			}
		}
		for dir := 0; dir < 2; dir++ {
			if dir == 1 && !both {
				break
			}
			for k := 0; k < nTasks; k++ {
				want++
				zsimrt.Go(fmt.Sprintf("session-sender-%d", dir), func() {
					for i := 0; i < per; i++ {
						np++
						pt := fmt.Sprintf("CONC%05d:%x", np, st.Intn(1<<30))
						zsimrt.Yield("harness/before-session-send")
						out, err := ss[dir].Send(nil, []byte(pt), now)
						if err != nil {
							res.Probe("session-send-error")
							continue
						}
						res.Probe("session-send-ok")
						wires = append(wires, sent{dir, pt, out})
					}
					done++
				})
			}
		}
		zsimrt.WaitUntil("harness/senders-done", func() bool { return done >= want })
		// (1) counters are unique per direction
		seen := map[string]int{}
		for i, x := range wires {
			res.Checks++
			k := fmt.Sprintf("%d/%d", x.from, binary.BigEndian.Uint32(x.wire[:4]))
			if j, dup := seen[k]; dup {
				res.Violate(w.step(), "counter-reused", "two concurrent Send calls on one Session produced messages with the same counter %s (plaintexts %q and %q): two ciphertexts under one key and counter", k, wires[j].plain, x.plain)
			}
			seen[k] = i
		}
		// (2) the peer decrypts each to its own plaintext, once
		got := map[string]int{}
		for _, x := range wires {
			res.Checks++
			isApp, out, err := ss[1-x.from].Deliver(nil, x.wire, now)
			if err == nil && isApp {
				got[string(out)]++
				if string(out) != x.plain {
					res.Violate(w.step(), "plaintext-not-from-peer", "a message produced by Send(%q) decrypted to %q at the peer", x.plain, trunc(out))
				}
			}
		}
		for _, x := range wires {
			if got[x.plain] > 1 {
				res.Violate(w.step(), "delivered-twice", "plaintext %q was handed to the application %d times", x.plain, got[x.plain])
			}
			if got[x.plain] == 1 {
				res.Probe("app-data-delivered")
			}
		}
		w.Finished = true
	})
	FillStats(res, w)
	res.Nontrivial = len(wires) > 1 && w.Sim.Stats.MultiRunnable > 0
	res.Sample = []string{fmt.Sprintf("%d concurrent Session.Send calls in %d tasks; %d messages", np, want, len(wires))}
}
