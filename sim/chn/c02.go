package chn

import (
	"context"
	"fmt"
	"time"

	"go.brendoncarroll.net/p2p/zsimrt"

	"verifsim/simcore"
	"verifsim/simnet"
)

// RunC02 is the channel-level leg of C02: two real p2pke.Channels with several
// concurrent senders per side, across session rotation (short rekey / reject
// timers) and optionally a restart of one side, over a network that loses,
// duplicates, reorders and corrupts, with an active replayer that re-injects any
// datagram ever sent — to its original destination, reflected to its sender, or
// long after the session it belonged to was rotated out.
//
// Oracles (world.go onDeliver / Send / FinalWire): every plaintext a channel
// hands to the application was passed to Send by the party holding the key the
// channel reports as RemoteKey, at most once per channel object; the sender's
// buffers are not modified; no plaintext appears on the wire.
//
//	legs: chan-replay (no restart), chan-restart (one side is replaced by a fresh Channel mid-run)
func RunC02(st *simcore.Stream, tier, leg string, logOn bool, res *simcore.Result) {
	w := NewWorld(st, res, logOn)
	w.DrawTimers()
	w.Sim.MaxSteps = 300000
	w.Sim.MaxTime = 3 * time.Hour
	w.Sim.ClockWeight = 1
	T := w.T
	w.Sim.ClockQuanta = []time.Duration{time.Millisecond, T.Backoff / 2, T.Backoff, T.KeepAlive / 2, T.Rekey / 2, T.Rekey}
	a := w.NewSide("A", 1, nil)
	b := w.NewSide("B", 2, nil)
	a.Peer, b.Peer = b.Node.LocalAddr(), a.Node.LocalAddr()
	w.Net.Faults = simnet.Faults{Drop: st.Intn(2), Dup: st.Intn(2), Reorder: st.Intn(3), Corrupt: st.Intn(2)}
	replayRate := simcore.Pick(st, 0, 2, 4, 8) // out of 16 per opportunity
	nSenders := 1 + st.Intn(3)
	perSender := 2 + st.Intn(6)
	gap := simcore.Pick(st, time.Millisecond, T.Backoff, T.KeepAlive/2, T.Rekey/2, T.Rekey)
	res.Cfg = map[string]any{"leg": leg, "backoff": T.Backoff.String(), "rekey": T.Rekey.String(), "reject": T.Reject.String(), "keepAlive": T.KeepAlive.String(),
		"faults": fmt.Sprintf("%+v", w.Net.Faults), "replayRate16": replayRate, "sendersPerSide": nSenders, "perSender": perSender, "gap": gap.String()}

	// the replayer's archive: every datagram ever handed to the network
	type rec struct {
		src, dst simnet.Addr
		data     []byte
		at       time.Duration
	}
	var archive []rec
	w.Net.OnTell = func(p *simnet.Pkt) {
		if len(archive) < 4000 {
			archive = append(archive, rec{p.Src, p.Dst, append([]byte{}, p.Data...), w.Sim.Now()})
		}
	}
	replay := func() {
		if len(archive) == 0 {
			return
		}
		r := archive[st.Intn(len(archive))]
		age := w.Sim.Now() - r.at
		switch st.Intn(4) {
		case 0:
			// reflected to its sender
			w.Net.Inject(r.dst, r.src, r.data)
			res.Fault("replay-reflected")
		default:
			w.Net.Inject(r.src, r.dst, r.data)
			if age > T.Rekey {
				res.Fault("replay-older-than-a-rekey-period")
			} else {
				res.Fault("replay-recent")
			}
		}
	}

	w.Sim.Run(func() {
		a.Start()
		b.Start()
		done, want := 0, 0
		for _, s := range []*Side{a, b} {
			for k := 0; k < nSenders; k++ {
				want++
				zsimrt.Go("sender-"+s.Name, func() {
					for i := 0; i < perSender; i++ {
						ctx, cf := context.WithTimeout(context.Background(), 2*T.Reject)
						w.Send(s, ctx)
						cf()
						if st.Intn(16) < replayRate {
							replay()
						}
						zsimrt.Sleep(gap)
					}
					done++
				})
			}
		}
		stopReplayer := false
		zsimrt.Go("replayer", func() {
			for !stopReplayer {
				zsimrt.Sleep(simcore.Pick(st, T.Backoff, T.KeepAlive/2, T.Rekey, T.Reject))
				if st.Intn(16) < replayRate {
					for k := 0; k < 1+st.Intn(4); k++ {
						replay()
					}
				}
			}
		})
		if leg == "chan-restart" {
			zsimrt.Go("restarter", func() {
				zsimrt.Sleep(simcore.Pick(st, T.Backoff, T.Rekey/2, T.Rekey+T.Backoff, T.Reject))
				s := simcore.Pick(st, a, b)
				s.Restart()
				// everything the old incarnation's peer still has in flight, and the whole
				// archive, now reaches a channel object that never saw those sessions
				for k := 0; k < st.Intn(6); k++ {
					replay()
				}
			})
		}
		zsimrt.WaitUntil("harness/senders-done", func() bool { return done >= want })
		// drain: let the network deliver what is in flight, replay a last burst of old traffic
		for k := 0; k < st.Intn(8); k++ {
			replay()
		}
		stopReplayer = true
		w.Net.Faults = simnet.Faults{Dup: w.Net.Faults.Dup, Reorder: w.Net.Faults.Reorder}
		zsimrt.Sleep(T.Backoff)
		w.WaitQuietOrTimeout(2 * T.Reject)
		w.FinalWire()
		w.Finished = true
	})
	FillStats(res, w)
	var keep []simcore.Violation
	for _, v := range res.Violations {
		switch v.Class {
		case "plaintext-not-from-peer", "delivered-twice", "plaintext-on-wire", "sender-buffer-modified":
			keep = append(keep, v)
		default:
			res.Probe("other-property-violation-seen:" + v.Class)
		}
	}
	res.Violations = keep
	res.Nontrivial = res.Probes["app-data-delivered"] > 0 && len(res.Faults) > 0 && w.Sim.Stats.MultiRunnable > 0
	var sample []string
	for _, r := range w.Sends {
		sample = append(sample, fmt.Sprintf("send on %s gen=%d start=%v returned=%v err=%v", r.Side.Name, r.Gen, r.Start, r.Returned, r.Err))
	}
	if len(sample) > 10 {
		sample = sample[:10]
	}
	res.Sample = sample
}
