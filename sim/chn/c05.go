package chn

import (
	"context"
	"fmt"
	"time"

	"go.brendoncarroll.net/p2p/f/x509"
	"go.brendoncarroll.net/p2p/zsimrt"

	"verifsim/simcore"
	"verifsim/simnet"
)

func predicate(kind int, k x509.PublicKey) (func(*x509.PublicKey) bool, string) {
	switch kind {
	case 0:
		return nil, "accept-all"
	case 1:
		return func(*x509.PublicKey) bool { return false }, "accept-none"
	case 2:
		return func(p *x509.PublicKey) bool { return x509.EqualPublicKeys(p, &k) }, "only-K"
	default:
		return func(p *x509.PublicKey) bool { return !x509.EqualPublicKeys(p, &k) }, "all-but-K"
	}
}

// RunC05 legs:
//
//	predicates  two channels with per-run acceptance predicates, both roles, both sides initiating, rekeys
//	foreign     an established pair; a third party with another key (a real Channel) handshakes with A
//	            while seeing everything A sends
func RunC05(st *simcore.Stream, tier, leg string, logOn bool, res *simcore.Result) {
	w := NewWorld(st, res, logOn)
	w.DrawTimers()
	w.Sim.MaxSteps = 200000
	w.Sim.MaxTime = 3 * time.Hour
	w.Sim.ClockWeight = 1
	T := w.T
	w.Sim.ClockQuanta = []time.Duration{time.Millisecond, T.Backoff, T.Backoff, T.KeepAlive / 2, T.Rekey, T.Reject / 2}
	_, pubA := key("A", 1)
	_, pubB := key("B", 2)
	_, pubF := key("F", 3)
	var a, b, f *Side
	var descA, descB string
	if leg == "foreign" {
		accA, dA := predicate(simcore.Pick(st, 0, 0, 2), pubB)
		descA, descB = dA, "accept-all"
		a = w.NewSide("A", 1, accA)
		b = w.NewSide("B", 2, nil)
		f = w.NewSide("F", 3, nil)
	} else {
		accA, dA := predicate(st.Intn(4), pubB)
		accB, dB := predicate(st.Intn(4), pubA)
		descA, descB = dA, dB
		a = w.NewSide("A", 1, accA)
		b = w.NewSide("B", 2, accB)
	}
	_ = pubF
	a.Peer, b.Peer = b.Node.LocalAddr(), a.Node.LocalAddr()
	if f != nil {
		f.Peer = a.Node.LocalAddr()
		// the foreign party sees everything A sends
		w.Net.OnTell = func(p *simnet.Pkt) {
			if p.Src == a.Node.LocalAddr() && p.Dst == b.Node.LocalAddr() && f.Ch != nil && st.Bool(1, 2) {
				w.Net.Inject(a.Node.LocalAddr(), f.Node.LocalAddr(), p.Data)
				res.Fault("copy-to-foreign-party")
			}
		}
	}
	w.Net.Faults = simnet.Faults{Drop: st.Intn(2), Dup: st.Intn(2), Reorder: st.Intn(3)}
	res.Cfg = map[string]any{"leg": leg, "A": descA, "B": descB, "backoff": T.Backoff.String(), "rekey": T.Rekey.String(), "reject": T.Reject.String(), "keepAlive": T.KeepAlive.String(), "faults": fmt.Sprintf("%+v", w.Net.Faults)}
	establishedFirst := false
	aAcceptsB := a.Accept == nil || a.Accept(&pubB)
	bAcceptsA := b.Accept == nil || b.Accept(&pubA)

	w.Sim.Run(func() {
		a.Start()
		b.Start()
		sendLoop := func(s *Side, n int, gap time.Duration) {
			for i := 0; i < n; i++ {
				ctx, cf := context.WithTimeout(context.Background(), 4*T.Reject)
				w.Send(s, ctx)
				cf()
				zsimrt.Sleep(gap)
			}
		}
		// both sides start sending at (nearly) the same time: simultaneous initiation
		n := 2 + st.Intn(4)
		gap := simcore.Pick(st, T.Backoff, T.KeepAlive/2, T.Rekey/2, T.Rekey)
		done := 0
		for _, s := range []*Side{a, b} {
			if s == b && st.Bool(1, 4) {
				done++
				continue // only one side initiates
			}
			zsimrt.Go("sender", func() { sendLoop(s, n, gap); done++ })
		}
		// WaitReady is part of the statement too
		zsimrt.Go("waiter", func() {
			ctx, cf := context.WithTimeout(context.Background(), 2*T.Reject)
			defer cf()
			ch := a.Ch
			if err := ch.WaitReady(ctx); err == nil {
				w.acceptedOK(a, ch, "WaitReady returned nil")
				res.Probe("waitready-ok")
			}
		})
		if f != nil {
			zsimrt.Go("foreign", func() {
				zsimrt.Sleep(simcore.Pick(st, 0, T.Backoff, T.Rekey/2, T.Rekey+T.Backoff, 2*T.Rekey))
				rk := a.Ch.RemoteKey()
				establishedFirst = x509.EqualPublicKeys(&rk, &pubB)
				f.Start()
				res.Fault("foreign-handshake")
				for i := 0; i < 3; i++ {
					ctx, cf := context.WithTimeout(context.Background(), T.Rekey)
					r := w.Send(f, ctx)
					cf()
					if r.Err == nil {
						res.Probe("foreign-send-returned-nil")
					}
					zsimrt.Sleep(T.Backoff)
				}
			})
		}
		zsimrt.WaitUntil("harness/senders-done", func() bool { return done >= 2 })
		// ---- afterwards, on a reliable network, the legitimate pair must still work ----
		w.Net.FaultsOff = true
		w.Net.OnTell = nil
		w.Sim.ClockWeight = 0
		zsimrt.Sleep(T.Reject + T.KeepAlive) // let everything old expire
		// (under accept-all the first key to complete a handshake legitimately owns the
		// channel: the pair is only owed to work if B was established before the
		// foreign party appeared, or if A's predicate admits B alone)
		if aAcceptsB && bAcceptsA && (f == nil || descA == "only-K" || establishedFirst) {
			ctx, cf := context.WithTimeout(context.Background(), 2*T.Reject)
			r := w.Send(a, ctx)
			cf()
			zsimrt.Sleep(4 * T.Backoff)
			res.Checks++
			if r.Err != nil {
				res.Violate(w.step(), "pair-broken-afterwards", "after the run (leg %s) a Send on A over a reliable network failed: %v", leg, r.Err).With("leg", leg)
			} else {
				found := false
				for k := range b.Got {
					if len(k) > len(r.Plain) && k[len(k)-len(r.Plain):] == r.Plain {
						found = true
					}
				}
				if !found {
					res.Violate(w.step(), "pair-broken-afterwards", "after the run (leg %s) a message sent by A over a reliable network never reached B", leg).With("leg", leg)
				} else {
					res.Probe("pair-works-afterwards")
				}
			}
		}
		// a side whose predicate rejects its only possible peer must never have become usable
		for _, s := range []*Side{a, b} {
			other := pubB
			if s == b {
				other = pubA
			}
			if s.Accept != nil && !s.Accept(&other) && f == nil {
				res.Checks++
				rk := s.Ch.RemoteKey()
				if !rk.IsZero() {
					res.Violate(w.step(), "rejected-key-established", "channel %s rejects its peer's key, yet RemoteKey() is set (%s)", s.Name, w.ownerOf(rk)).With("side", s.Name)
				}
				res.Probe("side-rejects-peer")
			}
		}
		w.FinalWire()
		w.Finished = true
	})
	FillStats(res, w)
	// C05 decides acceptance and key stability
	var keep []simcore.Violation
	for _, v := range res.Violations {
		switch v.Class {
		case "usable-with-rejected-key", "usable-with-zero-remote-key", "remote-key-changed", "rejected-key-established", "pair-broken-afterwards":
			keep = append(keep, v)
		default:
			res.Probe("other-property-violation-seen:" + v.Class)
		}
	}
	res.Violations = keep
	res.Nontrivial = res.Checks > 3 && w.Sim.Stats.MultiRunnable > 0
	var sample []string
	for _, r := range w.Sends {
		sample = append(sample, fmt.Sprintf("send on %s start=%v returned=%v end=%v err=%v", r.Side.Name, r.Start, r.Returned, r.End, r.Err))
	}
	if len(sample) > 12 {
		sample = sample[:12]
	}
	res.Sample = sample
}
