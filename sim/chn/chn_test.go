package chn

import (
	"os"
	"testing"

	"verifsim/simcore"
)

// One binary serves the channel simulations of C07 and C05; SIM_PROP selects.
func TestSim(t *testing.T) {
	prop := os.Getenv("SIM_PROP")
	if prop == "" {
		prop = "C07"
	}
	simcore.Main(prop, []string{"heal"}, func(st *simcore.Stream, tier, leg string, logOn bool, res *simcore.Result) {
		simcore.Bubble(t, res.Seed, func() {
			switch prop {
			case "C07":
				RunC07(st, tier, leg, logOn, res)
			case "C05":
				RunC05(st, tier, leg, logOn, res)
			case "C02":
				RunC02(st, tier, leg, logOn, res)
			default:
				panic("unknown SIM_PROP " + prop)
			}
		})
	})
}
