// Package sess simulates P2PKE sessions with the harness as transport, clock and
// adversary. Sessions have no goroutines and take `now` as an argument, so the
// simulation is single-threaded: every message delivery, mutation, clock jump and
// workload step is one decision of the choice stream.
package sess

import (
	"bytes"
	"encoding/binary"
	"fmt"
	"runtime/debug"
	"time"

	"go.uber.org/zap"

	"go.brendoncarroll.net/p2p/f/x509"
	"go.brendoncarroll.net/p2p/p/p2pke"

	"verifsim/simcore"
)

var reg = x509.DefaultRegistry()
var nopLog = zap.NewNop()
var baseTime = time.Date(2024, 1, 2, 3, 4, 5, 0, time.UTC)

type Party struct {
	Name string
	Priv x509.PrivateKey
	Pub  x509.PublicKey
}

func NewParty(name string, i int) *Party {
	seed := make([]byte, 32)
	binary.BigEndian.PutUint64(seed[24:], uint64(i)+1000)
	copy(seed, name)
	priv := x509.PrivateKey{Algorithm: x509.Algo_Ed25519, Data: seed}
	pub, err := reg.PublicFromPrivate(&priv)
	if err != nil {
		panic(err)
	}
	return &Party{Name: name, Priv: priv, Pub: pub}
}

// Sess is one real p2pke.Session plus what the harness knows about it.
type Sess struct {
	ID     int
	Name   string
	Owner  *Party
	S      *p2pke.Session
	IsInit bool
	Peer   *Sess // the honest session it is meant to pair with (nil if none)

	Sent      map[string]bool // plaintexts passed to Send successfully
	Got       map[string]int  // plaintexts returned by Deliver
	Emitted   [][]byte        // every byte string this session produced
	WasReady  bool
	CreatedAt time.Time
	Expiry    time.Duration
}

// Wire is one byte string that has been on the transport.
type Wire struct {
	Data  []byte
	From  *Sess  // producer (nil for attacker-made)
	Kind  string // hs | data | forged
	Plain string // data: the plaintext
	To    *Sess  // intended destination for genuine traffic
}

type World struct {
	St    *simcore.Stream
	Res   *simcore.Result
	Now   time.Time
	Step  int
	Sess  []*Sess
	Pool  []*Wire
	Trace []string
	LogOn bool
	nextP int
}

func NewWorld(st *simcore.Stream, res *simcore.Result, logOn bool) *World {
	return &World{St: st, Res: res, Now: baseTime, LogOn: logOn}
}

func (w *World) Logf(format string, args ...any) {
	line := fmt.Sprintf("%d ", w.Step) + fmt.Sprintf(format, args...)
	if len(w.Trace) < 400 {
		w.Trace = append(w.Trace, line)
	}
}

func (w *World) NewSess(name string, owner *Party, isInit bool, rejectAfter time.Duration) *Sess {
	s := &Sess{ID: len(w.Sess), Name: name, Owner: owner, IsInit: isInit, Sent: map[string]bool{}, Got: map[string]int{}, CreatedAt: w.Now, Expiry: rejectAfter}
	w.guard(s, "NewSession", func() {
		s.S = p2pke.NewSession(p2pke.SessionConfig{Registry: reg, PrivateKey: owner.Priv, IsInit: isInit, Now: w.Now, RejectAfter: rejectAfter, Logger: nopLog})
	})
	w.Sess = append(w.Sess, s)
	return s
}

// guard converts a panic of library code into a violation (the process-level
// crash detection of the driver stays in place for everything else).
func (w *World) guard(s *Sess, what string, f func()) (panicked bool) {
	defer func() {
		if r := recover(); r != nil {
			panicked = true
			name := "?"
			if s != nil {
				name = s.Name
			}
			w.Res.Violate(w.Step, "panic", "%s on session %s panicked: %v", what, name, r).With("stack", string(debug.Stack()))
		}
	}()
	f()
	return false
}

func (w *World) emit(from *Sess, to *Sess, data []byte, kind, plain string) *Wire {
	cp := append([]byte{}, data...)
	wi := &Wire{Data: cp, From: from, Kind: kind, Plain: plain, To: to}
	w.Pool = append(w.Pool, wi)
	if from != nil {
		from.Emitted = append(from.Emitted, cp)
	}
	return wi
}

// Handshake asks s for its current handshake message and puts it on the wire.
func (w *World) Handshake(s *Sess) *Wire {
	var out []byte
	if w.guard(s, "Handshake", func() { out = s.S.Handshake(w.scratch()) }) {
		return nil
	}
	if out == nil {
		return nil
	}
	wi := w.emit(s, s.Peer, out, "hs", "")
	poison(out)
	return wi
}

// The Session API is append-style: what it returns belongs to the caller, and what the caller
// passes in (the incoming message) is the caller's again once the call returns. A real caller
// reuses both (receive buffers of a transport, one scratch buffer for all output), so the
// harness overwrites them as soon as it has copied what it needs: a Session that kept a
// reference to either is found out.
func (w *World) scratch() []byte {
	if w.St.Bool(1, 2) {
		return nil
	}
	return make([]byte, 0, 2048)
}

func poison(b []byte) {
	b = b[:cap(b)]
	for i := range b {
		b[i] = 0xA5
	}
}

type DeliverResult struct {
	IsApp bool
	Out   []byte
	Err   error
	Reply *Wire
}

// Deliver hands data to s and runs the per-delivery oracles common to all legs.
func (w *World) Deliver(s *Sess, data []byte) DeliverResult {
	var r DeliverResult
	in := append([]byte{}, data...)
	if w.guard(s, "Deliver", func() { r.IsApp, r.Out, r.Err = s.S.Deliver(w.scratch(), in, w.Now) }) {
		r.Err = fmt.Errorf("panic")
		return r
	}
	w.Res.Checks++
	if !bytes.Equal(in, data) {
		w.Res.Violate(w.Step, "input-modified", "Deliver modified its input buffer on session %s", s.Name)
	}
	if r.Err == nil && !r.IsApp && len(r.Out) > 0 {
		r.Reply = w.emit(s, s.Peer, r.Out, "hs", "")
	}
	if r.Out != nil {
		mine := r.Out
		r.Out = append([]byte{}, r.Out...)
		poison(mine)
	}
	poison(in)
	return r
}

// Send encrypts a fresh unique plaintext on s; on success the ciphertext goes to the pool.
func (w *World) Send(s *Sess) (*Wire, error) {
	w.nextP++
	n := 8 + w.St.Intn(24)
	pt := make([]byte, n)
	w.St.Bytes(pt)
	copy(pt, fmt.Sprintf("P%05d:", w.nextP))
	var out []byte
	var err error
	ptIn := append([]byte{}, pt...)
	if w.guard(s, "Send", func() { out, err = s.S.Send(w.scratch(), ptIn, w.Now) }) {
		return nil, fmt.Errorf("panic")
	}
	poison(ptIn)
	if err != nil {
		return nil, err
	}
	s.Sent[string(pt)] = true
	wi := w.emit(s, s.Peer, out, "data", string(pt))
	poison(out)
	return wi, nil
}

func counterOf(b []byte) (uint32, bool) {
	if len(b) < 4 {
		return 0, false
	}
	return binary.BigEndian.Uint32(b[:4]), true
}

func samePub(a, b x509.PublicKey) bool { return x509.EqualPublicKeys(&a, &b) }

func ready(s *Sess) bool { return s.S.IsReady() }
