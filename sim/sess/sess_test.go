package sess

import (
	"os"
	"testing"
	"testing/cryptotest"

	"verifsim/simcore"
)

// One binary serves the session legs of C06, C02 and C03; SIM_PROP selects.
func TestSim(t *testing.T) {
	prop := os.Getenv("SIM_PROP")
	if prop == "" {
		prop = "C06"
	}
	simcore.Main(prop, []string{"random"}, func(st *simcore.Stream, tier, leg string, logOn bool, res *simcore.Result) {
		cryptotest.SetGlobalRandom(t, res.Seed)
		switch prop {
		case "C06":
			RunC06(st, tier, leg, logOn, res)
		case "C02", "C03":
			RunAdv(prop, st, tier, leg, logOn, res)
		default:
			panic("unknown SIM_PROP " + prop)
		}
	})
}
