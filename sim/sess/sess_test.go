package sess

import (
	"os"
	"strings"
	"testing"
	"testing/cryptotest"

	"verifsim/chn"
	"verifsim/simcore"
)

// One binary serves the session legs of C06, C02 and C03; SIM_PROP selects.
func TestSim(t *testing.T) {
	prop := os.Getenv("SIM_PROP")
	if prop == "" {
		prop = "C06"
	}
	simcore.Main(prop, []string{"random"}, func(st *simcore.Stream, tier, leg string, logOn bool, res *simcore.Result) {
		if strings.HasPrefix(leg, "chan-") {
			// channel-level leg of C02: real Channels under the parking scheduler
			simcore.Bubble(t, res.Seed, func() { chn.RunC02(st, tier, leg, logOn, res) })
			return
		}
		cryptotest.SetGlobalRandom(t, res.Seed)
		switch prop {
		case "C06":
			RunC06(st, tier, leg, logOn, res)
		case "C02", "C03":
			RunAdv(prop, st, tier, leg, logOn, res)
		default:
			panic("unknown SIM_PROP " + prop)
		}
	})
}
