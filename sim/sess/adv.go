package sess

import (
	"bytes"
	"fmt"
	"time"

	"go.brendoncarroll.net/p2p/p/p2pke"

	"verifsim/simcore"
)

// advWorld: honest parties A,B (several session pairs over time), an unrelated
// honest pair C,D, and the attacker E who owns the transport: it sees every byte
// string ever emitted, may deliver any of them (mutated or not) to any session,
// and (C03) speaks the protocol itself with its own key.
type advWorld struct {
	*World
	prop     string
	parties  map[string]*Party
	E        *Party
	honest   []*Sess
	accepted map[*Sess]map[*Sess]bool // S accepted a genuine handshake wire produced by T
	forgedOK map[*Sess]bool           // S accepted an attacker-made handshake wire
	atks     []*Atk
	undeliv  []*Wire
	plains   [][]byte
}

func (w *advWorld) owner(pubOf *Sess) *Party { return pubOf.Owner }

// pair returns the session mutually paired with s by accepted genuine handshake wires.
func (w *advWorld) pair(s *Sess) *Sess {
	for _, t := range w.Sess {
		if w.accepted[s][t] && w.accepted[t][s] {
			return t
		}
	}
	return nil
}

func (w *advWorld) partyOfKey(s *Sess) (*Party, bool) {
	rk := s.S.RemoteKey()
	if rk.IsZero() {
		return nil, false
	}
	for _, name := range []string{"A", "B", "C", "D", "E"} {
		if p := w.parties[name]; samePub(rk, p.Pub) {
			return p, true
		}
	}
	return nil, true
}

// usableOracle is the C03 clause, evaluated whenever a session is usable:
// IsReady(), or it just returned application data, or Send just succeeded.
func (w *advWorld) usableOracle(s *Sess, why string) {
	res := w.Res
	res.Checks++
	p, nonzero := w.partyOfKey(s)
	if !nonzero || p == nil {
		res.Violate(w.Step, "usable-without-known-remote-key", "session %s is usable (%s) but reports a zero or unknown remote key", s.Name, why).With("why", why)
		return
	}
	if p == w.E {
		if !w.forgedOK[s] {
			res.Violate(w.Step, "usable-with-attacker-key-without-attacker", "session %s reports the attacker's key although it never accepted an attacker-made handshake message", s.Name)
		}
		return
	}
	// honest P: some session of P must have consumed s's handshake output and
	// produced the handshake input s accepted
	t := w.pair(s)
	if t == nil || t.Owner != p {
		who := "nobody"
		if t != nil {
			who = t.Owner.Name
		}
		res.Violate(w.Step, "usable-with-unproven-key", "session %s (owner %s) is usable (%s) and reports %s's key, but no session of %s took part in this handshake (mutual pairing: %s, attacker-made handshake message accepted: %v)", s.Name, s.Owner.Name, why, p.Name, p.Name, who, w.forgedOK[s]).With("why", why).With("forged", w.forgedOK[s])
		return
	}
	// agreement: the paired honest session, once it has a remote key, reports s's owner
	if rk := t.S.RemoteKey(); !rk.IsZero() && !samePub(rk, s.Owner.Pub) {
		res.Violate(w.Step, "pair-disagrees-on-keys", "sessions %s and %s are paired but %s reports a key that is not %s's", s.Name, t.Name, t.Name, s.Owner.Name)
	}
}

// deliverTo gives a wire (possibly mutated) to a session and applies the oracles.
func (w *advWorld) deliverTo(s *Sess, wi *Wire, data []byte, mutated bool, tag string) DeliverResult {
	// provenance is by content: whatever the adversary did, bytes identical to a
	// genuine emitted message ARE that genuine message
	if mutated || wi.From == nil {
		for _, g := range w.Pool {
			if g.From != nil && bytes.Equal(g.Data, data) {
				wi, mutated = g, false
				break
			}
		}
	}
	before := w.snap(s)
	r := w.Deliver(s, data)
	after := w.snap(s)
	advanced := r.Err == nil && (!bytes.Equal(before.hs, after.hs) || before.ready != after.ready)
	if advanced && !r.IsApp {
		if !mutated && wi.From != nil && wi.Kind == "hs" {
			if w.accepted[s] == nil {
				w.accepted[s] = map[*Sess]bool{}
			}
			w.accepted[s][wi.From] = true
		} else if wi.Kind != "data" || mutated {
			w.forgedOK[s] = true
		}
	}
	if r.Reply != nil {
		r.Reply.To = wi.From
		w.undeliv = append(w.undeliv, r.Reply)
	}
	if w.LogOn || len(w.Trace) < 60 {
		w.Logf("%s: %s ctr=%s from=%s mut=%v -> %s isApp=%v reply=%v adv=%v err=%v", tag, wi.Kind, ctrStr(data), nameOf(wi.From), mutated, s.Name, r.IsApp, r.Reply != nil, advanced, r.Err)
	}
	res := w.Res
	// a Deliver error never changes later behaviour
	if r.Err != nil {
		res.Checks++
		if !bytes.Equal(before.hs, after.hs) || before.ready != after.ready || !bytes.Equal(before.rk, after.rk) {
			res.Violate(w.Step, "state-changed-by-rejected-message", "session %s changed state although Deliver returned %v", s.Name, r.Err)
		}
	}
	if before.rk != nil && !bytes.Equal(before.rk, after.rk) {
		res.Violate(w.Step, "remote-key-changed", "session %s: RemoteKey changed", s.Name)
	}
	if r.IsApp {
		// C02 (1),(2): authentic, from the paired session, at most once, unmodified
		res.Checks++
		s.Got[string(r.Out)]++
		t := w.pair(s)
		atkPeer := false
		if p, _ := w.partyOfKey(s); p == w.E && w.forgedOK[s] && bytes.HasPrefix(r.Out, []byte("ATTACKER-DATA-")) && wi.From == nil {
			// the attacker authenticated with its own key: its data is authentic attacker data
			atkPeer = true
		}
		switch {
		case atkPeer && s.Got[string(r.Out)] == 1:
			res.Probe("attacker-own-session-data")
		case !atkPeer && (t == nil || !t.Sent[string(r.Out)]):
			from := "nobody"
			if t != nil {
				from = t.Name
			}
			res.Violate(w.Step, "plaintext-not-from-peer", "session %s handed %q to the application; its authenticated peer (%s) never passed that to Send (wire from %s, mutated=%v)", s.Name, r.Out, from, nameOf(wi.From), mutated).With("mutated", mutated)
		case s.Got[string(r.Out)] > 1:
			res.Violate(w.Step, "delivered-twice", "session %s handed the same plaintext to the application %d times", s.Name, s.Got[string(r.Out)])
		default:
			res.Probe("authentic-delivery")
			if mutated {
				res.Probe("mutated-yet-identical")
			}
		}
		w.usableOracle(s, "isApp")
	}
	if after.ready {
		if !s.WasReady {
			res.Probe("session-became-ready")
		}
		s.WasReady = true
		w.usableOracle(s, "ready")
	}
	return r
}

func (w *advWorld) mutate(data []byte) []byte {
	st := w.St
	d := append([]byte{}, data...)
	switch st.Intn(8) {
	case 0: // bit flip
		if len(d) > 0 {
			i := st.Intn(len(d))
			d[i] ^= 1 << uint(st.Intn(8))
		}
		w.Res.Fault("bitflip")
	case 1: // truncate
		if len(d) > 0 {
			d = d[:st.Intn(len(d))]
		}
		w.Res.Fault("truncate")
	case 2: // extend
		ext := make([]byte, 1+st.Intn(8))
		st.Bytes(ext)
		d = append(d, ext...)
		w.Res.Fault("extend")
	case 3: // splice: header of this one, body of another
		if len(w.Pool) > 0 && len(d) >= 4 {
			o := w.Pool[st.Intn(len(w.Pool))].Data
			if len(o) >= 4 {
				d = append(append([]byte{}, d[:4]...), o[4:]...)
			}
		}
		w.Res.Fault("splice")
	case 4: // rewrite the counter
		if len(d) >= 4 {
			c := []uint32{0, 1, 2, 3, 4, 15, 16, 17, 0xfffffffe, 0xffffffff}[st.Intn(10)]
			copy(d, hdr(c))
		}
		w.Res.Fault("recounter")
	case 5: // random bytes
		d = make([]byte, st.Intn(80))
		st.Bytes(d)
		w.Res.Fault("random-bytes")
	case 6: // flip a bit in the body only
		if len(d) > 5 {
			i := 4 + st.Intn(len(d)-4)
			d[i] ^= 1 << uint(st.Intn(8))
		}
		w.Res.Fault("bitflip")
	case 7: // byte-identical copy (replay)
		w.Res.Fault("replay")
	}
	return d
}

func (w *advWorld) newPair(x, y string, name string, reject time.Duration) (*Sess, *Sess) {
	i := w.NewSess("i"+name, w.parties[x], true, reject)
	r := w.NewSess("r"+name, w.parties[y], false, reject)
	if i.S == nil || r.S == nil {
		return nil, nil
	}
	i.Peer, r.Peer = r, i
	w.honest = append(w.honest, i, r)
	return i, r
}

func (w *advWorld) send(s *Sess) {
	wasReady := false
	w.guard(s, "IsReady", func() { wasReady = s.S.IsReady() })
	wi, err := w.Send(s)
	if wi == nil {
		_ = err
		return
	}
	w.plains = append(w.plains, []byte(wi.Plain))
	wi.To = w.pair(s)
	if wi.To == nil {
		wi.To = s.Peer
	}
	w.undeliv = append(w.undeliv, wi)
	w.Res.Probe("send-ok")
	if !wasReady {
		w.Res.Violate(w.Step, "send-before-ready", "session %s encrypted application data while IsReady() was false", s.Name)
	}
	w.usableOracle(s, "send")
	if w.LogOn || len(w.Trace) < 60 {
		w.Logf("send on %s ctr=%s", s.Name, ctrStr(wi.Data))
	}
}

// finalWireOracles: C02 (3) counter uniqueness per session and (4) no plaintext on the wire.
func (w *advWorld) finalWireOracles() {
	res := w.Res
	for _, s := range w.honest {
		seen := map[uint32][]byte{}
		for _, e := range s.Emitted {
			c, ok := counterOf(e)
			if !ok {
				res.Violate(w.Step, "short-message-emitted", "session %s emitted a %d-byte message", s.Name, len(e))
				continue
			}
			if c < 2 {
				continue // hello messages are not encrypted under the session's transport key
			}
			res.Checks++
			if prev, dup := seen[c]; dup && !bytes.Equal(prev, e) {
				res.Violate(w.Step, "counter-reused", "session %s produced two different ciphertexts under counter %d", s.Name, c).With("counter", c)
			}
			seen[c] = e
		}
	}
	for _, wi := range w.Pool {
		if wi.From == nil {
			continue
		}
		for _, pt := range w.plains {
			res.Checks++
			if len(pt) >= 8 && bytes.Contains(wi.Data, pt) {
				res.Violate(w.Step, "plaintext-on-wire", "an emitted message of session %s contains an application plaintext", nameOf(wi.From))
			}
		}
	}
}

// RunAdv runs the adversarial-transport simulation for C02 (passive/active byte
// adversary) and C03 (adds the protocol-speaking attacker).
func RunAdv(prop string, st *simcore.Stream, tier, leg string, logOn bool, res *simcore.Result) {
	w := &advWorld{World: NewWorld(st, res, logOn), prop: prop, parties: map[string]*Party{}, accepted: map[*Sess]map[*Sess]bool{}, forgedOK: map[*Sess]bool{}}
	for i, n := range []string{"A", "B", "C", "D", "E"} {
		w.parties[n] = NewParty(n, 10+i)
	}
	w.E = w.parties["E"]
	reject := []time.Duration{180 * time.Second, 20 * time.Second, 5 * time.Second}[st.Intn(3)]
	npairs := 1 + st.Intn(3)
	swap := st.Bool(1, 2)
	for k := 0; k < npairs; k++ {
		x, y := "A", "B"
		if swap && k%2 == 1 {
			x, y = "B", "A"
		}
		if i, _ := w.newPair(x, y, fmt.Sprintf("%s%s%d", x, y, k), reject); i == nil {
			return
		}
	}
	if i, _ := w.newPair("C", "D", "CD", reject); i == nil {
		return
	}
	active := prop == "C03" || leg == "active"
	nact := 10 + st.Intn(70)
	res.Cfg = map[string]any{"prop": prop, "leg": leg, "pairs": npairs, "reject_s": reject.Seconds(), "actions": nact, "attacker": active}

	for a := 0; a < nact; a++ {
		w.Step++
		weights := []int{10, 4, 5, 4, 4, 1, 0}
		if active {
			weights[6] = 6
		}
		switch st.Choose(7, weights, "adv") {
		case 0: // honest progress: deliver the oldest undelivered wire where it belongs
			if len(w.undeliv) > 0 {
				i := 0
				if st.Bool(1, 4) {
					i = st.Intn(len(w.undeliv))
					res.Fault("reorder")
				}
				wi := w.undeliv[i]
				w.undeliv = append(w.undeliv[:i], w.undeliv[i+1:]...)
				if st.Bool(1, 12) {
					res.Fault("drop")
					break
				}
				if wi.To != nil {
					w.deliverTo(wi.To, wi, wi.Data, false, "deliver")
				}
			} else {
				// nothing in flight: let an initiator (re)transmit
				s := w.honest[st.Intn(len(w.honest))]
				if wi := w.Handshake(s); wi != nil {
					wi.To = s.Peer
					if p := w.pair(s); p != nil {
						wi.To = p
					}
					w.undeliv = append(w.undeliv, wi)
				}
			}
		case 1: // poll a handshake message (retransmission)
			s := w.honest[st.Intn(len(w.honest))]
			if wi := w.Handshake(s); wi != nil {
				wi.To = s.Peer
				if p := w.pair(s); p != nil {
					wi.To = p
				}
				w.undeliv = append(w.undeliv, wi)
			}
		case 2: // application data
			w.send(w.honest[st.Intn(len(w.honest))])
		case 3: // replay / cross-feed: any wire ever seen, unmodified, to any session
			if len(w.Pool) > 0 {
				wi := w.Pool[st.Intn(len(w.Pool))]
				s := w.honest[st.Intn(len(w.honest))]
				switch {
				case s == wi.From:
					res.Fault("reflect")
				case s == wi.To:
					res.Fault("duplicate-or-late")
				default:
					res.Fault("cross-feed")
				}
				w.deliverTo(s, wi, wi.Data, false, "replay")
			}
		case 4: // mutation of a seen wire, delivered to any session (biased to its destination)
			if len(w.Pool) > 0 {
				wi := w.Pool[st.Intn(len(w.Pool))]
				s := wi.To
				if s == nil || st.Bool(1, 3) {
					s = w.honest[st.Intn(len(w.honest))]
				}
				d := w.mutate(wi.Data)
				mutated := !bytes.Equal(d, wi.Data)
				w.deliverTo(s, wi, d, mutated, "mutate")
			}
		case 5: // clock jump
			dt := []time.Duration{time.Second, 3 * time.Second, 10 * time.Second, 100 * time.Second, 200 * time.Second}[st.Intn(5)]
			w.Now = w.Now.Add(dt)
			res.Fault("clock-jump")
			w.Logf("clock +%v", dt)
		case 6:
			w.attack()
		}
	}
	// drain: deliver what is still in flight, in order, so that sessions that can finish do
	for k := 0; k < 40 && len(w.undeliv) > 0; k++ {
		w.Step++
		wi := w.undeliv[0]
		w.undeliv = w.undeliv[1:]
		if wi.To != nil {
			w.deliverTo(wi.To, wi, wi.Data, false, "drain")
		}
	}
	w.finalWireOracles()
	for _, s := range w.honest {
		if s.WasReady {
			res.Probe("sessions-ready-at-end")
		}
	}
	res.Steps = w.Step
	res.Nontrivial = len(res.Faults) > 0 && res.Probes["session-became-ready"] > 0
	res.TraceHash = traceHash(w.Trace) + fmt.Sprintf("-%d-%d", len(w.Pool), res.Checks)
	if len(w.Trace) > 30 {
		res.Sample = w.Trace[:30]
	} else {
		res.Sample = w.Trace
	}
	if logOn {
		res.Log = w.Trace
	}
}

// ---- the protocol-speaking attacker -----------------------------------------

// claimFrom finds a genuine InitHello of an honest party in the pool and returns
// its (key, timestamp, signature) fields.
func (w *advWorld) stolenInitClaim() *p2pke.InitHello {
	var found []*p2pke.InitHello
	for _, wi := range w.Pool {
		if wi.From == nil || !wi.From.IsInit {
			continue
		}
		if c, ok := counterOf(wi.Data); !ok || c != 0 {
			continue
		}
		m, err := p2pke.ParseMessage(wi.Data)
		if err != nil {
			continue
		}
		if ih, err := m.GetInitHello(); err == nil {
			found = append(found, ih)
		}
	}
	if len(found) == 0 {
		return nil
	}
	return found[w.St.Intn(len(found))]
}

func (w *advWorld) forged(data []byte, kind string, to *Sess) *Wire {
	wi := &Wire{Data: append([]byte{}, data...), From: nil, Kind: kind, To: to}
	return wi
}

func (w *advWorld) attack() {
	st, res := w.St, w.Res
	E := w.E
	victim := w.parties[[]string{"A", "B", "C", "D"}[st.Intn(4)]]
	ts := func() []byte {
		// tai64n of the simulated now: 8 byte seconds (2^62 offset) + 4 byte nanos
		b := make([]byte, 12)
		sec := uint64(w.Now.Unix()) + (1 << 62) + 10
		for i := 0; i < 8; i++ {
			b[i] = byte(sec >> (56 - 8*uint(i)))
		}
		return b
	}
	switch st.Intn(6) {
	case 0, 1: // E initiates towards an honest responder
		var targets []*Sess
		for _, s := range w.honest {
			if !s.IsInit {
				targets = append(targets, s)
			}
		}
		r := targets[st.Intn(len(targets))]
		if st.Bool(1, 2) && len(w.honest) < 16 {
			// a fresh honest responder (state 0) so that the whole attacker handshake runs
			r = w.NewSess(fmt.Sprintf("rX%d", len(w.honest)), w.parties[[]string{"A", "B"}[st.Intn(2)]], false, 180*time.Second)
			if r.S == nil {
				return
			}
			w.honest = append(w.honest, r)
		}
		a := newAtk(true)
		a.Target = r
		var key, t, sig []byte
		kind := st.Intn(5)
		switch kind {
		case 0: // honest attacker: own key
			t = ts()
			key, sig = keyBytes(E), signAs(E, purposeTS, t)
		case 1: // stolen claim of an honest party (valid timestamp signature!)
			if c := w.stolenInitClaim(); c != nil {
				key, t, sig = c.KeyX509, c.TimestampTai64N, c.Sig
			} else {
				t = ts()
				key, sig = keyBytes(E), signAs(E, purposeTS, t)
			}
		case 2: // victim's key, attacker's signature
			t = ts()
			key, sig = keyBytes(victim), signAs(E, purposeTS, t)
		case 3: // victim's key, signature made for the other purpose
			t = ts()
			key, sig = keyBytes(victim), signAs(E, purposeCB, t)
		case 4: // garbage signature
			t = ts()
			key = keyBytes(victim)
			sig = make([]byte, 64)
			st.Bytes(sig)
		}
		res.Fault(fmt.Sprintf("atk-inithello-%d", kind))
		m0 := a.InitHello(key, t, sig, 1)
		rr := w.deliverTo(r, w.forged(m0, "hs", r), m0, true, "atk-inithello")
		if rr.Reply == nil {
			return
		}
		// the reply was meant for the attacker: take it off the honest queue
		w.takeUndelivered(rr.Reply)
		if a.ReadRespHello(rr.Reply.Data) != nil {
			return
		}
		w.atks = append(w.atks, a)
		// InitDone with a choice of signatures
		var dsig []byte
		dk := st.Intn(4)
		switch dk {
		case 0:
			dsig = signAs(E, purposeCB, a.CBFinal) // valid only if the claimed key is E's
		case 1:
			dsig = sig // reuse the (possibly stolen) timestamp signature
		case 2:
			dsig = signAs(E, purposeTS, a.CBFinal)
		case 3:
			dsig = nil
		}
		res.Fault(fmt.Sprintf("atk-initdone-%d", dk))
		m2 := a.InitDone(dsig)
		w.deliverTo(r, w.forged(m2, "hs", r), m2, true, "atk-initdone")
		// and data under the attacker's keys, whatever happened
		pt := []byte("ATTACKER-DATA-0001")
		d := a.Data(16, pt)
		w.deliverTo(r, w.forged(d, "forged-data", r), d, true, "atk-data")
	case 2, 3: // E answers an honest initiator's InitHello
		var hellos []*Wire
		for _, wi := range w.Pool {
			if wi.From != nil && wi.From.IsInit {
				if c, ok := counterOf(wi.Data); ok && c == 0 {
					hellos = append(hellos, wi)
				}
			}
		}
		if st.Bool(1, 2) && len(w.honest) < 16 {
			// a fresh honest initiator whose InitHello only the attacker answers
			ni := w.NewSess(fmt.Sprintf("iX%d", len(w.honest)), w.parties[[]string{"A", "B"}[st.Intn(2)]], true, 180*time.Second)
			if ni.S == nil {
				return
			}
			w.honest = append(w.honest, ni)
			if wi := w.Handshake(ni); wi != nil {
				hellos = []*Wire{wi}
			}
		}
		if len(hellos) == 0 {
			return
		}
		h := hellos[st.Intn(len(hellos))]
		i := h.From
		a := newAtk(false)
		a.Target = i
		if a.ReadInitHello(h.Data) != nil {
			return
		}
		var key, sig []byte
		kind := st.Intn(5)
		switch kind {
		case 0:
			key, sig = keyBytes(E), signAs(E, purposeCB, a.CBAfter1)
		case 1:
			key, sig = keyBytes(victim), signAs(E, purposeCB, a.CBAfter1)
		case 2: // victim's key with a signature the victim made in some other handshake
			key = keyBytes(victim)
			sig = w.stolenRespSig(victim)
			if sig == nil {
				sig = signAs(E, purposeCB, a.CBAfter1)
			}
		case 3: // victim's key, right data, wrong purpose
			key, sig = keyBytes(victim), signAs(E, purposeTS, a.CBAfter1)
		case 4:
			key = keyBytes(victim)
			sig = make([]byte, 64)
			st.Bytes(sig)
		}
		res.Fault(fmt.Sprintf("atk-resphello-%d", kind))
		m1 := a.RespHello(key, sig)
		rr := w.deliverTo(i, w.forged(m1, "hs", i), m1, true, "atk-resphello")
		if rr.Reply != nil {
			w.takeUndelivered(rr.Reply)
		}
		w.atks = append(w.atks, a)
		m3 := a.RespDone()
		w.deliverTo(i, w.forged(m3, "hs", i), m3, true, "atk-respdone")
		d := a.Data(16, []byte("ATTACKER-DATA-0002"))
		w.deliverTo(i, w.forged(d, "forged-data", i), d, true, "atk-data")
	case 4: // data before any handshake finished
		s := w.honest[st.Intn(len(w.honest))]
		a := newAtk(true)
		a.InitHello(keyBytes(E), ts(), nil, 1)
		d := make([]byte, 4+16+st.Intn(20))
		st.Bytes(d)
		copy(d, hdr(uint32(16+st.Intn(4))))
		res.Fault("atk-early-data")
		w.deliverTo(s, w.forged(d, "forged-data", s), d, true, "atk-early-data")
	case 5: // an established attacker session keeps talking
		if len(w.atks) == 0 {
			return
		}
		a := w.atks[st.Intn(len(w.atks))]
		if a.Out == nil {
			return
		}
		a.SendCtr++
		d := a.Data(a.SendCtr, []byte(fmt.Sprintf("ATTACKER-DATA-%04d", a.SendCtr)))
		res.Fault("atk-more-data")
		w.deliverTo(a.Target, w.forged(d, "forged-data", a.Target), d, true, "atk-more-data")
	}
}

func (w *advWorld) takeUndelivered(wi *Wire) {
	for i, u := range w.undeliv {
		if u == wi {
			w.undeliv = append(w.undeliv[:i], w.undeliv[i+1:]...)
			return
		}
	}
}

// stolenRespSig: a channel-binding signature the victim produced as responder in
// a handshake the attacker took part in as initiator is what a real attacker can
// obtain; here: from any RespHello the attacker decoded.
func (w *advWorld) stolenRespSig(victim *Party) []byte {
	for _, a := range w.atks {
		if a.PeerClaim != nil && bytes.Equal(a.PeerClaim.KeyX509, keyBytes(victim)) {
			return a.PeerClaim.Sig
		}
	}
	return nil
}
