package sess

import (
	"encoding/binary"
	"io"

	"github.com/flynn/noise"
	"golang.org/x/crypto/blake2b"
	"google.golang.org/protobuf/proto"

	"go.brendoncarroll.net/p2p/f/x509"
	"go.brendoncarroll.net/p2p/p/p2pke"
)

// The active attacker speaks the P2PKE wire protocol with its own noise state,
// the package's exported protobuf types and its own signing key. It is written
// from the protocol description (README), not by calling unexported helpers.

var atkSuite = noise.NewCipherSuite(noise.DH25519, noise.CipherChaChaPoly, noise.HashBLAKE2b)

const (
	purposeCB = "p2pke/channel-binding"
	purposeTS = "p2pke/timestamp"
)

func preSig(purpose string, msg []byte) []byte {
	h, err := blake2b.NewXOF(64, nil)
	if err != nil {
		panic(err)
	}
	h.Write([]byte{uint8(len(purpose))})
	h.Write([]byte(purpose))
	h.Write(msg)
	out := make([]byte, 64)
	io.ReadFull(h, out)
	return out
}

func signAs(p *Party, purpose string, msg []byte) []byte {
	s, err := reg.LoadSigner(&p.Priv)
	if err != nil {
		panic(err)
	}
	sig, err := s.Sign(nil, preSig(purpose, msg))
	if err != nil {
		panic(err)
	}
	return sig
}

func keyBytes(p *Party) []byte { return x509.MarshalPublicKey(nil, &p.Pub) }

func hdr(counter uint32) []byte {
	b := make([]byte, 4)
	binary.BigEndian.PutUint32(b, counter)
	return b
}

// Atk is one attacker-side handshake (either role).
type Atk struct {
	IsInit    bool
	HS        *noise.HandshakeState
	Out, In   noise.Cipher
	CBAfter1  []byte // channel binding after the first message (what RespHello signs)
	CBFinal   []byte // channel binding after the second message (what InitDone signs)
	SendCtr   uint32
	PeerClaim *p2pke.RespHello
	PeerHello *p2pke.InitHello
	Target    *Sess
}

// NewAtk is newAtk for the swarm-level simulations (C04).
func NewAtk(isInit bool) *Atk { return newAtk(isInit) }

func newAtk(isInit bool) *Atk {
	hs, err := noise.NewHandshakeState(noise.Config{Initiator: isInit, Pattern: noise.HandshakeNN, CipherSuite: atkSuite})
	if err != nil {
		panic(err)
	}
	return &Atk{IsInit: isInit, HS: hs, SendCtr: 16}
}

// InitHello builds message 0 with arbitrary claim fields.
func (a *Atk) InitHello(keyX509, ts, sig []byte, version uint32) []byte {
	data, _ := proto.Marshal(&p2pke.InitHello{Version: version, TimestampTai64N: ts, KeyX509: keyX509, Sig: sig})
	data = append(data, byte(len(data)>>8), byte(len(data)))
	msg, _, _, err := a.HS.WriteMessage(hdr(0), data)
	if err != nil {
		panic(err)
	}
	a.CBAfter1 = append([]byte{}, a.HS.ChannelBinding()...)
	return msg
}

// ReadRespHello consumes message 1 as the initiator.
func (a *Atk) ReadRespHello(msg []byte) error {
	if len(msg) < 4 {
		return io.ErrUnexpectedEOF
	}
	pl, cs1, cs2, err := a.HS.ReadMessage(nil, msg[4:])
	if err != nil {
		return err
	}
	a.Out, a.In = cs1.Cipher(), cs2.Cipher()
	a.CBFinal = append([]byte{}, a.HS.ChannelBinding()...)
	rh := &p2pke.RespHello{}
	if err := proto.Unmarshal(pl, rh); err == nil {
		a.PeerClaim = rh
	}
	return nil
}

// InitDone builds message 2 carrying an arbitrary signature.
func (a *Atk) InitDone(sig []byte) []byte {
	body, _ := proto.Marshal(&p2pke.InitDone{Sig: sig})
	h := hdr(2)
	return a.Out.Encrypt(h, 2, h, body)
}

// ReadInitHello consumes message 0 as the responder.
func (a *Atk) ReadInitHello(msg []byte) error {
	if len(msg) < 4 {
		return io.ErrUnexpectedEOF
	}
	pl, _, _, err := a.HS.ReadMessage(nil, msg[4:])
	if err != nil {
		return err
	}
	a.CBAfter1 = append([]byte{}, a.HS.ChannelBinding()...)
	if len(pl) >= 2 {
		l := int(binary.BigEndian.Uint16(pl[len(pl)-2:]))
		if st := len(pl) - 2 - l; st >= 0 {
			ih := &p2pke.InitHello{}
			if proto.Unmarshal(pl[st:len(pl)-2], ih) == nil {
				a.PeerHello = ih
			}
		}
	}
	return nil
}

// RespHello builds message 1 with an arbitrary claim.
func (a *Atk) RespHello(keyX509, sig []byte) []byte {
	body, _ := proto.Marshal(&p2pke.RespHello{KeyX509: keyX509, Sig: sig})
	msg, cs1, cs2, err := a.HS.WriteMessage(hdr(1), body)
	if err != nil {
		panic(err)
	}
	// responder: out = cs2, in = cs1
	a.Out, a.In = cs2.Cipher(), cs1.Cipher()
	a.CBFinal = append([]byte{}, a.HS.ChannelBinding()...)
	return msg
}

// RespDone builds message 3.
func (a *Atk) RespDone() []byte {
	h := hdr(3)
	return a.Out.Encrypt(h, 3, h, nil)
}

// Data encrypts pt under the attacker's own session keys with the given counter.
func (a *Atk) Data(counter uint32, pt []byte) []byte {
	h := hdr(counter)
	return a.Out.Encrypt(h, uint64(counter), h, pt)
}
