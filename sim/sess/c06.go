package sess

import (
	"bytes"
	"fmt"
	"time"

	"verifsim/simcore"
)

// snapshot of what a session shows through its API.
type snap struct {
	hs    []byte
	ready bool
	rk    []byte
}

func (w *World) snap(s *Sess) snap {
	var sn snap
	w.guard(s, "Handshake", func() { sn.hs = s.S.Handshake(nil) })
	w.guard(s, "IsReady", func() { sn.ready = s.S.IsReady() })
	w.guard(s, "RemoteKey", func() {
		rk := s.S.RemoteKey()
		if !rk.IsZero() {
			sn.rk = append([]byte(rk.Algorithm.String()+":"), rk.Data...)
		}
	})
	return sn
}

// honestInvariants are the per-action checks of C06 for one session.
// touched: the session successfully processed a Deliver in this action.
func (w *World) honestInvariants(s *Sess, before snap, touched bool, what string) snap {
	after := w.snap(s)
	res := w.Res
	res.Checks++
	var again []byte
	w.guard(s, "Handshake", func() { again = s.S.Handshake(nil) })
	if !bytes.Equal(after.hs, again) {
		res.Violate(w.Step, "handshake-not-idempotent", "session %s: two consecutive Handshake() calls returned different bytes", s.Name)
	}
	if before.ready && !after.ready {
		res.Violate(w.Step, "ready-regressed", "session %s: IsReady went from true to false after %s", s.Name, what)
	}
	if before.rk != nil && !bytes.Equal(before.rk, after.rk) {
		res.Violate(w.Step, "remote-key-changed", "session %s: RemoteKey changed after %s", s.Name, what)
	}
	if !touched {
		if !bytes.Equal(before.hs, after.hs) {
			res.Violate(w.Step, "state-changed-without-accepted-message", "session %s: handshake message changed although no message was accepted (%s)", s.Name, what)
		}
		if before.ready != after.ready {
			res.Violate(w.Step, "state-changed-without-accepted-message", "session %s: readiness changed although no message was accepted (%s)", s.Name, what)
		}
	}
	if after.ready {
		s.WasReady = true
	}
	return after
}

// RunC06: genuine messages of one honest pair under loss, duplication,
// reordering and reflection, then a fair suffix.
func RunC06(st *simcore.Stream, tier, leg string, logOn bool, res *simcore.Result) {
	w := NewWorld(st, res, logOn)
	a, b := NewParty("alice", 1), NewParty("bob", 2)
	sweep := leg == "sweep"
	if !sweep && st.Bool(1, 2) {
		a, b = b, a
	}
	I := w.NewSess("I", a, true, 180*time.Second)
	R := w.NewSess("R", b, false, 180*time.Second)
	if I.S == nil || R.S == nil {
		return
	}
	I.Peer, R.Peer = R, I
	both := []*Sess{I, R}

	var actions []int
	const sweepAlphabet = 9
	if sweep {
		// K enumerates all sequences over the sweep alphabet by length; the sequence is
		// recorded in the choice stream so that the run replays from its decision list
		k := res.K
		length := 0
		if !st.Replaying {
			count := 1
			for k >= count {
				k -= count
				length++
				count *= sweepAlphabet
			}
		}
		length = int(st.Fixed(uint32(length))) % 12
		for i := 0; i < length; i++ {
			actions = append(actions, int(st.Fixed(uint32(k%sweepAlphabet)))%sweepAlphabet)
			k /= sweepAlphabet
		}
	} else {
		n := st.Intn(41)
		for i := 0; i < n; i++ {
			actions = append(actions, -1)
		}
	}
	res.Cfg = map[string]any{"leg": leg, "actions": len(actions), "initiator": a.Name}

	delivered := map[*Wire]int{}
	var lastDelivered *Wire
	deliver := func(wi *Wire, to *Sess, tag string) {
		if wi == nil || to == nil {
			return
		}
		before := map[*Sess]snap{}
		for _, s := range both {
			before[s] = w.snap(s)
		}
		r := w.Deliver(to, wi.Data)
		delivered[wi]++
		lastDelivered = wi
		w.Logf("%s: %s(ctr %v) from %s -> %s  isApp=%v reply=%v err=%v", tag, wi.Kind, ctrStr(wi.Data), nameOf(wi.From), to.Name, r.IsApp, r.Reply != nil, r.Err)
		if r.IsApp {
			w.appData(to, r.Out)
		}
		for _, s := range both {
			w.honestInvariants(s, before[s], s == to && r.Err == nil, tag)
		}
	}
	newest := func(kind string) *Wire {
		for i := len(w.Pool) - 1; i >= 0; i-- {
			if kind == "" || w.Pool[i].Kind == kind {
				return w.Pool[i]
			}
		}
		return nil
	}
	oldestUndelivered := func() *Wire {
		for _, wi := range w.Pool {
			if delivered[wi] == 0 {
				return wi
			}
		}
		return nil
	}
	newestUndeliveredReply := func() *Wire {
		for i := len(w.Pool) - 1; i >= 0; i-- {
			if delivered[w.Pool[i]] == 0 {
				return w.Pool[i]
			}
		}
		return nil
	}
	send := func(s *Sess) {
		before := map[*Sess]snap{}
		for _, x := range both {
			before[x] = w.snap(x)
		}
		wi, err := w.Send(s)
		w.Logf("send on %s: ok=%v err=%v", s.Name, wi != nil, err)
		if wi != nil && !before[s].ready {
			res.Violate(w.Step, "send-before-ready", "session %s encrypted application data while IsReady() was false", s.Name)
		}
		for _, x := range both {
			w.honestInvariants(x, before[x], false, "send")
		}
	}

	for _, act := range actions {
		w.Step++
		if sweep {
			switch act {
			case 0:
				deliver(w.Handshake(I), R, "I-current")
			case 1:
				deliver(w.Handshake(R), I, "R-current")
			case 2:
				if wi := newest(""); wi != nil {
					deliver(wi, wi.To, "newest")
				}
			case 3:
				if wi := oldestUndelivered(); wi != nil {
					res.Fault("reorder")
					deliver(wi, wi.To, "oldest-undelivered")
				}
			case 4:
				if lastDelivered != nil {
					res.Fault("duplicate")
					deliver(lastDelivered, lastDelivered.To, "duplicate")
				}
			case 5:
				if wi := newest(""); wi != nil {
					res.Fault("reflect")
					deliver(wi, wi.From, "reflect")
				}
			case 6:
				send(I)
			case 7:
				send(R)
			case 8:
				if wi := newest("data"); wi != nil {
					deliver(wi, wi.To, "data")
				}
			}
			continue
		}
		switch st.Choose(9, []int{3, 3, 3, 5, 2, 2, 2, 2, 2}, "c06") {
		case 0:
			deliver(w.Handshake(I), R, "I-current")
		case 1:
			deliver(w.Handshake(R), I, "R-current")
		case 2:
			if len(w.Pool) > 0 {
				wi := w.Pool[st.Intn(len(w.Pool))]
				if delivered[wi] > 0 {
					res.Fault("duplicate")
				} else {
					res.Fault("reorder")
				}
				deliver(wi, wi.To, "any")
			}
		case 3:
			if wi := newestUndeliveredReply(); wi != nil {
				deliver(wi, wi.To, "reply")
			}
		case 4:
			if len(w.Pool) > 0 {
				wi := w.Pool[st.Intn(len(w.Pool))]
				res.Fault("reflect")
				deliver(wi, wi.From, "reflect")
			}
		case 5:
			send(both[st.Intn(2)])
		case 6:
			// retransmission that is lost
			res.Fault("drop")
			w.Handshake(both[st.Intn(2)])
		case 7:
			if wi := newest("data"); wi != nil {
				deliver(wi, wi.To, "data")
			}
		case 8:
			// a whole in-order exchange step: current message and its reply
			x := both[st.Intn(2)]
			wi := w.Handshake(x)
			if wi != nil {
				deliver(wi, x.Peer, "current")
				if r := newestUndeliveredReply(); r != nil && r.From == x.Peer {
					deliver(r, r.To, "reply")
				}
			}
		}
	}

	// ---- fair suffix ---------------------------------------------------------
	w.Step++
	const rounds = 2
	for round := 0; round < rounds && !(ready(I) && ready(R)); round++ {
		for _, x := range both {
			cur := w.Handshake(x)
			dst := x.Peer
			for hop := 0; cur != nil && hop < 6; hop++ {
				before := map[*Sess]snap{}
				for _, s := range both {
					before[s] = w.snap(s)
				}
				r := w.Deliver(dst, cur.Data)
				w.Logf("fair: %s(ctr %v) %s -> %s isApp=%v reply=%v err=%v", cur.Kind, ctrStr(cur.Data), nameOf(cur.From), dst.Name, r.IsApp, r.Reply != nil, r.Err)
				for _, s := range both {
					w.honestInvariants(s, before[s], s == dst && r.Err == nil, "fair")
				}
				cur = r.Reply
				dst = dst.Peer
			}
		}
	}
	res.Checks++
	if !(ready(I) && ready(R)) {
		res.Violate(w.Step, "handshake-stuck", "after the fair suffix (%d rounds of each side's current handshake message and the chained replies) ready(I)=%v ready(R)=%v", rounds, ready(I), ready(R))
	} else {
		for _, x := range both {
			rk := x.S.RemoteKey()
			res.Checks++
			if !samePub(rk, x.Peer.Owner.Pub) {
				res.Violate(w.Step, "wrong-remote-key", "honest session %s is ready but reports a remote key that is not its peer's", x.Name)
			}
			wi, err := w.Send(x)
			if err != nil || wi == nil {
				res.Violate(w.Step, "data-does-not-flow", "after both sessions are ready, Send on %s failed: %v", x.Name, err).With("dir", x.Name)
				continue
			}
			r := w.Deliver(x.Peer, wi.Data)
			w.Logf("final data %s -> %s ctr=%v isApp=%v err=%v", x.Name, x.Peer.Name, ctrStr(wi.Data), r.IsApp, r.Err)
			if !r.IsApp || string(r.Out) != wi.Plain {
				res.Violate(w.Step, "data-does-not-flow", "after both sessions are ready, data from %s (counter %v) was not delivered intact: isApp=%v err=%v", x.Name, ctrStr(wi.Data), r.IsApp, r.Err).With("dir", x.Name).With("counter", ctrStr(wi.Data))
			} else {
				w.appData(x.Peer, r.Out)
			}
		}
	}
	res.Steps = w.Step
	res.Nontrivial = len(actions) >= 2
	res.TraceHash = traceHash(w.Trace)
	if len(w.Trace) > 30 {
		res.Sample = w.Trace[:30]
	} else {
		res.Sample = w.Trace
	}
	if logOn {
		res.Log = w.Trace
	}
}

// appData applies the at-most-once / authenticity oracle for honest pairs.
func (w *World) appData(to *Sess, pt []byte) {
	res := w.Res
	res.Checks++
	to.Got[string(pt)]++
	if to.Got[string(pt)] > 1 {
		res.Violate(w.Step, "delivered-twice", "session %s returned the same plaintext twice", to.Name)
	}
	if to.Peer == nil || !to.Peer.Sent[string(pt)] {
		res.Violate(w.Step, "plaintext-not-from-peer", "session %s returned a plaintext its peer never sent: %q", to.Name, pt)
	}
}

func ctrStr(b []byte) string {
	c, ok := counterOf(b)
	if !ok {
		return "short"
	}
	return fmt.Sprint(c)
}

func nameOf(s *Sess) string {
	if s == nil {
		return "attacker"
	}
	return s.Name
}

func traceHash(lines []string) string {
	var h uint64 = 1469598103934665603
	for _, l := range lines {
		for i := 0; i < len(l); i++ {
			h ^= uint64(l[i])
			h *= 1099511628211
		}
	}
	return fmt.Sprintf("%016x", h)
}
