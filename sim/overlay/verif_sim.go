// Added to package runtime through `go build -overlay` for simulation
// binaries only (see /verif/lib/overlay.py). Nothing in /repo is touched.
//
// It gives the simulator three things the stock runtime does not offer:
//   - the case order of select becomes a pure function of a nonce the
//     simulator sets before it releases a task (stock order when off);
//   - constant hash seeds / map seeds / iterator offsets, so the iteration
//     order of heap-allocated maps is a function of their insertion history;
//   - the id of the current goroutine.

package runtime

var verifSelOn uint32
var verifSelNonce uint64

// VerifSetSelect switches select-order control on or off and sets the nonce
// that decides the order of the cases of every select executed until the
// next call. Nonce 0 means "source order".
func VerifSetSelect(on bool, nonce uint64) {
	if on {
		verifSelOn = 1
	} else {
		verifSelOn = 0
	}
	verifSelNonce = nonce
}

// VerifGoid returns the id of the calling goroutine.
func VerifGoid() uint64 {
	return getg().goid
}

func verifMix(x uint64) uint64 {
	x += 0x9E3779B97F4A7C15
	x ^= x >> 30
	x *= 0xBF58476D1CE4E5B9
	x ^= x >> 27
	x *= 0x94D049BB133111EB
	x ^= x >> 31
	return x
}

// verifSelRand replaces cheaprandn in selectgo's shuffle. The shuffle is
// "pollorder[norder] = pollorder[j]; pollorder[j] = i" with j in [0,norder],
// so j == norder (n-1 here) for every step leaves the cases in source order.
func verifSelRand(n uint32) uint32 {
	if verifSelOn == 0 {
		return cheaprandn(n)
	}
	if verifSelNonce == 0 {
		return n - 1
	}
	return uint32(verifMix(verifSelNonce+uint64(n)*0x632BE59BD9B4E019) % uint64(n))
}

// verifConst is the constant stream used instead of bootstrapRand for hash keys.
func verifConst(i uint64) uint64 {
	return verifMix(i + 0x5eed)
}
