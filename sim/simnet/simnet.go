// Package simnet is the simulated datagram network: an implementation of
// p2p.Swarm / p2p.SecureSwarm whose in-flight datagrams are owned by the
// simulator. Delivery, loss, duplication, reordering and corruption are
// scheduler actions drawn from the single choice stream.
package simnet

import (
	"context"
	"fmt"
	"strconv"

	"go.brendoncarroll.net/p2p"
	"go.brendoncarroll.net/p2p/zsimrt"
)

type Addr struct{ N int }

func (a Addr) MarshalText() ([]byte, error) { return []byte("s" + strconv.Itoa(a.N)), nil }
func (a Addr) String() string               { return "s" + strconv.Itoa(a.N) }
func (a Addr) Key() string                  { return a.String() }

func ParseAddr(x []byte) (Addr, error) {
	if len(x) < 2 || x[0] != 's' {
		return Addr{}, fmt.Errorf("simnet: bad address %q", x)
	}
	n, err := strconv.Atoi(string(x[1:]))
	if err != nil || n < 0 || strconv.Itoa(n) != string(x[1:]) {
		return Addr{}, fmt.Errorf("simnet: bad address %q", x)
	}
	return Addr{N: n}, nil
}

type Pkt struct {
	ID       int
	Src, Dst Addr
	Data     []byte
	Dup      bool
	Corrupt  bool
}

// Faults holds per-run weights of the fault actions (0 = kind disabled).
type Faults struct {
	Drop, Dup, Reorder, Corrupt int
}

type Chooser interface {
	Intn(n int) int
}

type Net struct {
	Sim      *zsimrt.Sim
	St       Chooser
	MTU      int
	Faults   Faults
	Nodes    []*Node
	InFlight []*Pkt
	nextID   int
	// counters of what actually happened
	Fired map[string]int
	// Hook sees every datagram handed to the network (for attribution / capture).
	OnTell func(p *Pkt)
	// OnArrive sees every datagram put into a destination's inbox.
	OnArrive func(p *Pkt)
	// Paused stops all delivery (used to build up in-flight state).
	FaultsOff bool
	Delivered int
}

func New(sim *zsimrt.Sim, st Chooser, mtu int) *Net {
	return &Net{Sim: sim, St: st, MTU: mtu, Fired: map[string]int{}}
}

func (n *Net) fire(kind string) { n.Fired[kind]++ }

// Idle reports that nothing is in flight and every inbox is empty.
func (n *Net) Idle() bool {
	if len(n.InFlight) > 0 {
		return false
	}
	for _, nd := range n.Nodes {
		if len(nd.inbox) > 0 && !nd.closed {
			return false
		}
	}
	return true
}

func (n *Net) deliver(i int) {
	p := n.InFlight[i]
	n.InFlight = append(n.InFlight[:i], n.InFlight[i+1:]...)
	if p.Dst.N < 0 || p.Dst.N >= len(n.Nodes) {
		n.fire("to-nowhere")
		return
	}
	nd := n.Nodes[p.Dst.N]
	if nd.closed {
		n.fire("to-closed")
		return
	}
	nd.inbox = append(nd.inbox, p)
	n.Delivered++
	if n.OnArrive != nil {
		n.OnArrive(p)
	}
}

// Actions enumerates the network's scheduler actions.
func (n *Net) Actions(out []zsimrt.Action) []zsimrt.Action {
	k := len(n.InFlight)
	if k == 0 {
		return out
	}
	out = append(out, zsimrt.Action{Label: "net/deliver-oldest", Weight: 8, Do: func() { n.deliver(0) }})
	if n.FaultsOff {
		return out
	}
	f := n.Faults
	if k > 1 && f.Reorder > 0 {
		out = append(out, zsimrt.Action{Label: "net/deliver-other", Weight: f.Reorder, Do: func() {
			i := 1 + n.St.Intn(len(n.InFlight)-1)
			n.fire("reorder")
			n.deliver(i)
		}})
	}
	if f.Drop > 0 {
		out = append(out, zsimrt.Action{Label: "net/drop", Weight: f.Drop, Do: func() {
			i := n.St.Intn(len(n.InFlight))
			n.InFlight = append(n.InFlight[:i], n.InFlight[i+1:]...)
			n.fire("drop")
		}})
	}
	if f.Dup > 0 {
		out = append(out, zsimrt.Action{Label: "net/duplicate", Weight: f.Dup, Do: func() {
			i := n.St.Intn(len(n.InFlight))
			p := *n.InFlight[i]
			p.Data = append([]byte{}, p.Data...)
			p.Dup = true
			n.nextID++
			p.ID = n.nextID
			n.InFlight = append(n.InFlight, &p)
			n.fire("duplicate")
		}})
	}
	if f.Corrupt > 0 {
		out = append(out, zsimrt.Action{Label: "net/corrupt", Weight: f.Corrupt, Do: func() {
			i := n.St.Intn(len(n.InFlight))
			p := n.InFlight[i]
			if len(p.Data) > 0 {
				j := n.St.Intn(len(p.Data))
				p.Data[j] ^= 1 << uint(n.St.Intn(8))
				p.Corrupt = true
				n.fire("corrupt")
			}
		}})
	}
	return out
}

// Inject puts a raw datagram in flight (adversary).
func (n *Net) Inject(src, dst Addr, data []byte) {
	n.nextID++
	n.InFlight = append(n.InFlight, &Pkt{ID: n.nextID, Src: src, Dst: dst, Data: append([]byte{}, data...)})
}

// Node is one attachment point; it implements p2p.Swarm[Addr].
type Node struct {
	net    *Net
	addr   Addr
	inbox  []*Pkt
	closed bool
	// Received counts datagrams handed to a Receive callback.
	Received int
}

func (n *Net) NewNode() *Node {
	nd := &Node{net: n, addr: Addr{N: len(n.Nodes)}}
	n.Nodes = append(n.Nodes, nd)
	return nd
}

var _ p2p.Swarm[Addr] = &Node{}

func (nd *Node) Tell(ctx context.Context, dst Addr, v p2p.IOVec) error {
	zsimrt.Yield("simnet/tell")
	if nd.closed {
		return p2p.ErrClosed
	}
	if p2p.VecSize(v) > nd.net.MTU {
		return p2p.ErrMTUExceeded
	}
	if err := ctx.Err(); err != nil {
		return err
	}
	n := nd.net
	n.nextID++
	p := &Pkt{ID: n.nextID, Src: nd.addr, Dst: dst, Data: p2p.VecBytes(nil, v)}
	if n.OnTell != nil {
		n.OnTell(p)
	}
	n.InFlight = append(n.InFlight, p)
	return nil
}

func (nd *Node) Receive(ctx context.Context, fn func(p2p.Message[Addr])) error {
	zsimrt.WaitUntil("simnet/receive", func() bool {
		return nd.closed || len(nd.inbox) > 0 || ctx.Err() != nil
	})
	if nd.closed {
		return p2p.ErrClosed
	}
	if err := ctx.Err(); err != nil {
		return err
	}
	p := nd.inbox[0]
	nd.inbox = nd.inbox[1:]
	nd.Received++
	buf := append([]byte{}, p.Data...)
	fn(p2p.Message[Addr]{Src: p.Src, Dst: nd.addr, Payload: buf})
	// the callback may not retain the payload: poison it
	for i := range buf {
		buf[i] = 0xDD
	}
	zsimrt.Yield("simnet/received")
	return nil
}

func (nd *Node) LocalAddrs() []Addr { return []Addr{nd.addr} }
func (nd *Node) LocalAddr() Addr    { return nd.addr }
func (nd *Node) MTU() int           { return nd.net.MTU }
func (nd *Node) Closed() bool       { return nd.closed }

func (nd *Node) Close() error {
	zsimrt.Yield("simnet/close")
	nd.closed = true
	nd.inbox = nil
	return nil
}

func (nd *Node) ParseAddr(x []byte) (Addr, error) { return ParseAddr(x) }

// Secure adds a public key directory to a Node: it implements
// p2p.SecureSwarm[Addr, Pub] with ground-truth keys.
type Secure[Pub any] struct {
	*Node
	Pub  Pub
	Keys *[]Pub
}

func NewSecure[Pub any](nd *Node, pub Pub, dir *[]Pub) *Secure[Pub] {
	for len(*dir) <= nd.addr.N {
		var zero Pub
		*dir = append(*dir, zero)
	}
	(*dir)[nd.addr.N] = pub
	return &Secure[Pub]{Node: nd, Pub: pub, Keys: dir}
}

func (s *Secure[Pub]) PublicKey() Pub { return s.Pub }

func (s *Secure[Pub]) LookupPublicKey(ctx context.Context, a Addr) (Pub, error) {
	if a.N < 0 || a.N >= len(*s.Keys) {
		var zero Pub
		return zero, p2p.ErrPublicKeyNotFound
	}
	return (*s.Keys)[a.N], nil
}
