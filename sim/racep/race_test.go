// Package racep is the race-detector leg of C14. The serialising scheduler adds
// happens-before edges between all tasks and would hide every race, so here the
// goroutines run freely (no scheduler; all hooks are no-ops) under -race with the
// bubble's fake clock. Workloads are seeded; scheduling is not, so a report is
// reproduced "usually, not always" by re-running its seed (DESIGN.md C14 leg b).
// Legs "own:<stack>" re-run the scheduled C01 workload and keep the buffer
// ownership classes (leg a).
package racep

import (
	"context"
	"fmt"
	"hash/fnv"
	"os"
	"runtime"
	"strings"
	"sync"
	"sync/atomic"
	"testing"
	"time"

	"go.uber.org/zap"

	"go.brendoncarroll.net/p2p"
	"go.brendoncarroll.net/p2p/f/x509"
	"go.brendoncarroll.net/p2p/p/kademlia"
	"go.brendoncarroll.net/p2p/p/p2pke"
	"go.brendoncarroll.net/p2p/s/memswarm"
	"go.brendoncarroll.net/p2p/s/swarmutil"

	"verifsim/simcore"
	"verifsim/stk"
)

func TestSim(t *testing.T) {
	simcore.Main("C14", []string{"race:mem"}, func(st *simcore.Stream, tier, leg string, logOn bool, res *simcore.Result) {
		kind, arg, _ := strings.Cut(leg, ":")
		if kind == "race" && arg != "kad" && arg != "hubs" && arg != "channel" {
			// real clock, no bubble: the library holds mutexes across blocking hand-overs
			// (mbapp collector.withBuffer -> TellHub.Deliver); a goroutine waiting in
			// Mutex.Lock is not "durably blocked" for synctest, so a fake clock would
			// never advance while a callback sleeps and the run would hang
			raceStack(st, res, arg)
			return
		}
		simcore.Bubble(t, res.Seed, func() {
			switch kind {
			case "own":
				stk.RunC01(st, tier, arg, logOn, res)
				var keep []simcore.Violation
				for _, v := range res.Violations {
					if v.Class == "buffer-changed-in-callback" || v.Class == "sender-buffer-modified" || v.Class == "payload-not-told" {
						keep = append(keep, v)
					}
				}
				res.Violations = keep
			case "race":
				switch arg {
				case "kad":
					raceKad(st, res)
				case "hubs":
					raceHubs(st, res)
				case "channel":
					raceChannel(st, res)
				default:
					panic("unknown race leg " + arg)
				}
			default:
				panic("unknown leg " + leg)
			}
		})
	})
}

func sum(b []byte) uint64 {
	h := fnv.New64a()
	h.Write(b)
	return h.Sum64()
}

// raceStack: every API of a swarm stack used concurrently by free-running goroutines
// (real clock: about 0.15 s of wall time per run).
func raceStack(st *simcore.Stream, res *simcore.Result, spec string) {
	prev := runtime.GOMAXPROCS(8)
	defer runtime.GOMAXPROCS(prev)
	p := stk.Params{N: 2 + st.Intn(2), InnerMTU: simcore.Pick(st, 64, 300, 1280), FragMTU: simcore.Pick(st, 200, 1000), QueueLen: 4 + st.Intn(16), Workers: 1 + st.Intn(4)}
	if strings.Contains(spec, "p2pke") && p.InnerMTU < 300 {
		p.InnerMTU = 300
	}
	if strings.Contains(spec, "quic") {
		p.InnerMTU, p.QuicMTU = 1500, 4000
	}
	w := stk.NewWorld(st, res, false, spec, p)
	eps := w.Build(spec)
	res.Cfg = map[string]any{"stack": spec, "nodes": p.N, "innerMTU": p.InnerMTU, "workers": p.Workers, "gomaxprocs": 8}
	mtu := eps[0].MTU()
	var delivered, changed, told atomic.Int64
	ctx, cancel := context.WithCancel(context.Background())
	var wg sync.WaitGroup
	iters := 20 + st.Intn(60)
	seed := uint64(st.Intn(1 << 30))
	for _, ep := range eps {
		ep := ep
		for r := 0; r < 2; r++ {
			wg.Add(1)
			go func() {
				defer wg.Done()
				for {
					err := ep.Receive(ctx, func(m stk.Msg) {
						s0 := sum(m.Payload)
						src := m.Src
						runtime.Gosched()
						time.Sleep(time.Microsecond)
						if sum(m.Payload) != s0 || src != m.Src {
							changed.Add(1)
						}
						// the message is ours while the callback runs: writing to it must be fine too
						for i := range m.Payload {
							m.Payload[i] ^= 0xff
						}
						delivered.Add(1)
					})
					if err != nil {
						return
					}
				}
			}()
		}
		if ep.HasAsk() {
			wg.Add(1)
			go func() {
				defer wg.Done()
				for {
					err := ep.ServeAsk(ctx, func(ctx context.Context, resp []byte, m stk.Msg) int {
						n := copy(resp, m.Payload)
						return n
					})
					if err != nil {
						return
					}
				}
			}()
		}
		for s := 0; s < 2; s++ {
			s := s
			wg.Add(1)
			go func() {
				defer wg.Done()
				x := seed + uint64(ep.Node()*7+s)
				buf := make([]byte, 0, 4096)
				for i := 0; i < iters; i++ {
					x = x*6364136223846793005 + 1442695040888963407
					to := int(x>>33) % len(eps)
					n := int(x>>20) % (min(mtu, 600) + 1)
					buf = buf[:n]
					for j := range buf {
						buf[j] = byte(x >> uint(j%8))
					}
					c, cf := context.WithTimeout(ctx, 2*time.Second)
					if ep.HasAsk() && i%3 == 0 {
						resp := make([]byte, 700)
						ep.Ask(c, resp, to, p2p.IOVec{buf})
					} else if ep.Tell(c, to, p2p.IOVec{buf[:n/2], buf[n/2:]}) == nil {
						told.Add(1)
					}
					cf()
					// the buffer is reused for the next message at once
				}
			}()
		}
		wg.Add(1)
		go func() {
			defer wg.Done()
			for i := 0; i < iters; i++ {
				ep.LocalAddrs()
				ep.MTU()
				if ep.Secure() {
					ep.PublicKey()
					c, cf := context.WithTimeout(ctx, 100*time.Millisecond)
					ep.LookupKey(c, ep.AddrOf((ep.Node()+1)%len(eps)))
					cf()
				}
				runtime.Gosched()
			}
		}()
	}
	// close the nodes one after the other while everything is still running
	time.Sleep(time.Duration(1+st.Intn(40)) * time.Millisecond)
	for _, ep := range eps {
		ep.Close()
		time.Sleep(time.Millisecond)
	}
	for _, ep := range eps {
		ep.Close() // and once more, concurrently with the wind-down
	}
	time.Sleep(100 * time.Millisecond)
	cancel()
	wg.Wait()
	res.Checks = int(delivered.Load())
	res.ProbeN("delivered", int(delivered.Load()))
	res.ProbeN("told", int(told.Load()))
	if changed.Load() > 0 {
		res.Violate(0, "buffer-changed-in-callback", "%d callbacks saw their message change while they were running (free-running goroutines, stack %s)", changed.Load(), spec)
	}
	res.Nontrivial = delivered.Load() > 0
	res.TraceHash = fmt.Sprintf("%s-%d-%d", spec, res.Seed, delivered.Load())
	res.Sample = []string{fmt.Sprintf("stack %s: %d told, %d delivered under -race with 8 procs", spec, told.Load(), delivered.Load())}
}

// raceKad: the Kademlia cache and DHT node used from several goroutines.
func raceKad(st *simcore.Stream, res *simcore.Result) {
	prev := runtime.GOMAXPROCS(8)
	defer runtime.GOMAXPROCS(prev)
	var locus p2p.PeerID
	st.Bytes(locus[:])
	c := kademlia.NewCache[int](locus[:], 300, 1)
	node := kademlia.NewDHTNode(kademlia.DHTNodeParams{LocalID: locus, PeerCacheSize: 256, DataCacheSize: 64})
	var wg sync.WaitGroup
	now := time.Now()
	seed := uint64(st.Intn(1 << 30))
	var ops atomic.Int64
	for g := 0; g < 6; g++ {
		g := g
		wg.Add(1)
		go func() {
			defer wg.Done()
			x := seed + uint64(g)*977
			for i := 0; i < 300; i++ {
				x = x*6364136223846793005 + 1442695040888963407
				var k p2p.PeerID
				for j := range k {
					k[j] = byte(x >> uint(j%8))
				}
				k[0] = byte(x >> 40)
				switch (x >> 50) % 10 {
				case 0, 1, 2:
					c.Put(k[:], i, now, now.Add(time.Hour))
				case 3:
					c.Get(k[:], now)
				case 4:
					c.Count()
					c.IsFull()
				case 5:
					c.Closest(k[:])
				case 6:
					c.Delete(k[:])
				case 7:
					node.AddPeer(k, []byte("info"))
					node.HandleFindNode(k, kademlia.FindNodeReq{Target: k, Limit: 3})
				case 8:
					node.HandlePut(k, kademlia.PutReq{Key: k[:], Value: []byte("v"), TTLms: 1000})
					node.HandleGet(k, kademlia.GetReq{Key: k[:]})
					node.Count()
				case 9:
					c.Expire(nil, now)
					c.WouldAdd(k[:], now)
					_ = node.String()
				}
				ops.Add(1)
			}
		}()
	}
	wg.Wait()
	res.Checks = int(ops.Load())
	res.Nontrivial = true
	res.TraceHash = fmt.Sprintf("kad-%d", res.Seed)
	res.Sample = []string{fmt.Sprintf("kademlia cache + DHT node: %d concurrent operations under -race", ops.Load())}
}

type maddr = memswarm.Addr

// raceHubs: the hubs and the queue on their own.
func raceHubs(st *simcore.Stream, res *simcore.Result) {
	prev := runtime.GOMAXPROCS(8)
	defer runtime.GOMAXPROCS(prev)
	th := swarmutil.NewTellHub[maddr]()
	ah := swarmutil.NewAskHub[maddr]()
	q := swarmutil.NewQueue[maddr](1+st.Intn(4), 64)
	ctx, cancel := context.WithCancel(context.Background())
	var wg sync.WaitGroup
	var n atomic.Int64
	for g := 0; g < 3; g++ {
		wg.Add(3)
		go func() {
			defer wg.Done()
			for th.Receive(ctx, func(m p2p.Message[maddr]) { m.Payload[0]++; n.Add(1) }) == nil {
			}
		}()
		go func() {
			defer wg.Done()
			for ah.ServeAsk(ctx, func(ctx context.Context, resp []byte, m p2p.Message[maddr]) int { return copy(resp, m.Payload) }) == nil {
			}
		}()
		go func() {
			defer wg.Done()
			for q.Receive(ctx, func(m p2p.Message[maddr]) {
				if len(m.Payload) > 0 {
					m.Payload[0]++
				}
				n.Add(1)
			}) == nil {
			}
		}()
	}
	for g := 0; g < 3; g++ {
		wg.Add(1)
		go func() {
			defer wg.Done()
			buf := make([]byte, 16)
			for i := 0; i < 200; i++ {
				buf[1] = byte(i)
				c, cf := context.WithTimeout(ctx, time.Second)
				th.Deliver(c, p2p.Message[maddr]{Payload: buf})
				ah.Deliver(c, make([]byte, 32), p2p.Message[maddr]{Payload: buf})
				q.Deliver(p2p.Message[maddr]{Payload: buf})
				q.DeliverVec(maddr{}, maddr{}, p2p.IOVec{buf[:8], buf[8:]})
				q.Len()
				q.IsClosed()
				cf()
			}
		}()
	}
	time.Sleep(time.Duration(1+st.Intn(20)) * time.Millisecond)
	th.CloseWithError(nil)
	ah.CloseWithError(nil)
	q.Close()
	time.Sleep(2 * time.Second)
	cancel()
	wg.Wait()
	res.Checks = int(n.Load())
	res.Nontrivial = n.Load() > 0
	res.TraceHash = fmt.Sprintf("hubs-%d", res.Seed)
	res.Sample = []string{fmt.Sprintf("hubs and queue: %d hand-overs under -race", n.Load())}
}

// raceChannel: concurrent Send / Deliver / timers / Close on a pair of Channels.
func raceChannel(st *simcore.Stream, res *simcore.Result) {
	prev := runtime.GOMAXPROCS(8)
	defer runtime.GOMAXPROCS(prev)
	reg := x509.DefaultRegistry()
	mk := func(i byte) x509.PrivateKey {
		seed := make([]byte, 32)
		seed[0] = i
		return x509.PrivateKey{Algorithm: x509.Algo_Ed25519, Data: seed}
	}
	var a, b *p2pke.Channel
	var wg sync.WaitGroup
	var got atomic.Int64
	deliver := func(dst **p2pke.Channel) p2pke.SendFunc {
		return func(x []byte) {
			cp := append([]byte{}, x...)
			go func() {
				time.Sleep(time.Millisecond)
				if out, _ := (*dst).Deliver(nil, cp); out != nil {
					got.Add(1)
				}
			}()
		}
	}
	cfg := func(k x509.PrivateKey, dst **p2pke.Channel) p2pke.ChannelConfig {
		return p2pke.ChannelConfig{Registry: reg, PrivateKey: k, Send: deliver(dst), AcceptKey: func(*x509.PublicKey) bool { return true }, Logger: zap.NewNop(),
			KeepAliveTimeout: time.Second, HandshakeBackoff: 50 * time.Millisecond, RekeyAfterTime: 300 * time.Millisecond, RejectAfterTime: time.Second}
	}
	a = p2pke.NewChannel(cfg(mk(1), &b))
	b = p2pke.NewChannel(cfg(mk(2), &a))
	ctx, cancel := context.WithTimeout(context.Background(), 5*time.Second)
	for _, c := range []*p2pke.Channel{a, b} {
		c := c
		for g := 0; g < 3; g++ {
			wg.Add(1)
			go func() {
				defer wg.Done()
				for i := 0; i < 40; i++ {
					c.Send(ctx, p2p.IOVec{[]byte("hello"), []byte(" world")})
					c.RemoteKey()
					c.LastReceived()
					c.LastSent()
					c.LocalKey()
					time.Sleep(20 * time.Millisecond)
				}
			}()
		}
	}
	time.Sleep(2 * time.Second)
	a.Close()
	b.Close()
	cancel()
	wg.Wait()
	time.Sleep(2 * time.Second) // let the last deliveries finish (fake clock)
	res.Checks = int(got.Load())
	res.Nontrivial = got.Load() > 0
	res.TraceHash = fmt.Sprintf("channel-%d", res.Seed)
	res.Sample = []string{fmt.Sprintf("channel pair: %d messages delivered under -race across rekeys", got.Load())}
}

var _ = os.Getenv
