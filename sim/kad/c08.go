package kad

import (
	"fmt"
	"runtime/debug"
	"time"

	"go.brendoncarroll.net/p2p"
	"go.brendoncarroll.net/p2p/p/kademlia"

	"verifsim/simcore"
)

// RunC08DHT: the DHT handlers and the cache receive requests as a remote party
// may send them: keys of any length (empty, shorter and longer than an id),
// extreme TTLs and limits, ids equal to the node's own, repeated and interleaved
// with honest requests. The only oracle is that nothing panics.
func RunC08DHT(st *simcore.Stream, tier, leg string, logOn bool, res *simcore.Result) {
	var trace []string
	step := 0
	guard := func(what string, f func()) {
		defer func() {
			if r := recover(); r != nil {
				res.Violate(step, "panic", "%s panicked: %v", what, r).With("stack", string(debug.Stack())).With("op", what)
			}
		}()
		f()
	}
	var local p2p.PeerID
	st.Bytes(local[:])
	peerCache := simcore.Pick(st, 0, 1, 7, 8, 9, 16, 255, 256, 257, 1024)
	dataCache := simcore.Pick(st, 0, 1, 8, 64)
	var node *kademlia.DHTNode
	guard(fmt.Sprintf("NewDHTNode(peerCache=%d,dataCache=%d)", peerCache, dataCache), func() {
		node = kademlia.NewDHTNode(kademlia.DHTNodeParams{LocalID: local, PeerCacheSize: peerCache, DataCacheSize: dataCache})
	})
	res.Cfg = map[string]any{"peerCache": peerCache, "dataCache": dataCache}
	if node == nil {
		return
	}
	key := func() []byte {
		n := simcore.Pick(st, 0, 1, 2, 31, 32, 33, 64, 3)
		k := make([]byte, n)
		st.Bytes(k)
		if st.Bool(1, 4) {
			copy(k, local[:])
		}
		return k
	}
	from := func() (id p2p.PeerID) {
		if st.Bool(1, 5) {
			return local
		}
		st.Bytes(id[:])
		if st.Bool(1, 3) {
			copy(id[:], local[:st.Intn(32)])
		}
		return id
	}
	n := 20 + st.Intn(150)
	for i := 0; i < n; i++ {
		step++
		switch st.Intn(7) {
		case 0:
			k := key()
			ttl := simcore.Pick[uint64](st, 0, 1, 1000, 1<<40, ^uint64(0))
			v := make([]byte, st.Intn(40))
			guard(fmt.Sprintf("HandlePut(key %d bytes, ttl %d)", len(k), ttl), func() { node.HandlePut(from(), kademlia.PutReq{Key: k, Value: v, TTLms: ttl}) })
		case 1:
			k := key()
			guard(fmt.Sprintf("HandleGet(key %d bytes)", len(k)), func() { node.HandleGet(from(), kademlia.GetReq{Key: k}) })
		case 2:
			lim := simcore.Pick(st, -1, 0, 1, 3, 10, 1<<30)
			t := from()
			guard(fmt.Sprintf("HandleFindNode(limit %d)", lim), func() { node.HandleFindNode(from(), kademlia.FindNodeReq{Target: t, Limit: lim}) })
		case 3:
			id := from()
			guard("AddPeer", func() { node.AddPeer(id, make([]byte, st.Intn(20))) })
		case 4:
			id := from()
			guard("RemovePeer/GetPeer/HasPeer", func() { node.RemovePeer(id); node.GetPeer(id); node.HasPeer(id) })
		case 5:
			k := key()
			guard(fmt.Sprintf("Put/Get/WouldAdd(key %d bytes)", len(k)), func() {
				node.Put(k, []byte("v"), time.Duration(st.Intn(100))*time.Second)
				node.Get(k)
				node.WouldAdd(k)
			})
		case 6:
			lim := simcore.Pick(st, -1, 0, 1, 100)
			k := key()
			guard(fmt.Sprintf("ListPeers(%d)/ListNodeInfos(key %d bytes)/Count/String", lim, len(k)), func() { node.ListPeers(lim); node.ListNodeInfos(k, 3); node.Count(); _ = node.String() })
		}
		if len(res.Violations) > 0 {
			break
		}
	}
	res.Steps = step
	res.Nontrivial = true
	res.TraceHash = fmt.Sprintf("%d-%d-%d-%x", n, peerCache, dataCache, local[:4])
	res.Sample = trace
}
