package kad

import (
	"os"
	"testing"

	"verifsim/simcore"
)

// One binary serves C18, C19 and C20; SIM_PROP selects.
func TestSim(t *testing.T) {
	prop := os.Getenv("SIM_PROP")
	if prop == "" {
		prop = "C18"
	}
	simcore.Main(prop, []string{"history"}, func(st *simcore.Stream, tier, leg string, logOn bool, res *simcore.Result) {
		switch prop {
		case "C18":
			RunC18(st, tier, leg, logOn, res)
		case "C19":
			RunC19(st, tier, leg, logOn, res)
		case "C20":
			simcore.Bubble(t, res.Seed, func() { RunC20(st, tier, leg, logOn, res) })
		default:
			panic("unknown SIM_PROP " + prop)
		}
	})
}
