package kad

import (
	"bytes"
	"errors"
	"fmt"
	"runtime/debug"
	"sort"
	"time"

	"go.brendoncarroll.net/p2p"
	"go.brendoncarroll.net/p2p/p/kademlia"

	"verifsim/simcore"
)

// dhtWorld: a simulated network of real DHTNodes. The Ask callbacks ARE the
// network: per-call failure, crashed nodes, and adversarial responders.
type dhtWorld struct {
	st    *simcore.Stream
	res   *simcore.Result
	ids   []p2p.PeerID
	nodes map[p2p.PeerID]*kademlia.DHTNode
	adv   map[p2p.PeerID]int // adversary behaviour kind
	down  map[p2p.PeerID]bool
	fail  int // per-call failure probability in 1/64
	step  int
	trace []string

	// per-operation record
	asked     []p2p.PeerID
	askCount  map[p2p.PeerID]int
	mentioned map[p2p.PeerID]bool
	accepted  map[p2p.PeerID]bool
	responded map[p2p.PeerID]bool
	values    map[p2p.PeerID][]byte
	fab       int
	cut       bool
	target    []byte
}

var errNet = errors.New("simulated network failure")
var errCut = errors.New("operation cut: ask budget exhausted")

func (w *dhtWorld) logf(format string, args ...any) {
	if len(w.trace) < 300 {
		w.trace = append(w.trace, fmt.Sprintf("%d ", w.step)+fmt.Sprintf(format, args...))
	}
}

func (w *dhtWorld) genID(dense bool) (id p2p.PeerID) {
	w.st.Bytes(id[:])
	if dense {
		// share a long prefix so that deep buckets are populated
		for i := 0; i < 29; i++ {
			id[i] = 0xAB
		}
	}
	return id
}

func info(id p2p.PeerID) []byte { return []byte(fmt.Sprintf("addr-%x", id[:4])) }

func (w *dhtWorld) beginOp(target []byte, initial []kademlia.NodeInfo) {
	w.asked = nil
	w.askCount = map[p2p.PeerID]int{}
	w.mentioned = map[p2p.PeerID]bool{}
	w.accepted = map[p2p.PeerID]bool{}
	w.responded = map[p2p.PeerID]bool{}
	w.values = map[p2p.PeerID][]byte{}
	w.fab = 0
	w.cut = false
	w.target = target
	for _, n := range initial {
		w.mentioned[n.ID] = true
	}
}

// contact applies the network model to one ask; returns false if it fails.
func (w *dhtWorld) contact(id p2p.PeerID) error {
	w.asked = append(w.asked, id)
	w.askCount[id]++
	if len(w.asked) > 10*(len(w.mentioned)+1)+50 {
		w.cut = true
		return errCut
	}
	if w.down[id] {
		w.res.Fault("ask-to-crashed-node")
		return errNet
	}
	if w.fail > 0 && w.st.Intn(64) < w.fail {
		w.res.Fault("ask-lost")
		return errNet
	}
	return nil
}

// advList is what an adversarial responder returns as "closer" nodes.
func (w *dhtWorld) advList(self p2p.PeerID, asker p2p.PeerID) []kademlia.NodeInfo {
	st := w.st
	var out []kademlia.NodeInfo
	add := func(id p2p.PeerID) { out = append(out, kademlia.NodeInfo{ID: id, Info: info(id)}) }
	kind := w.adv[self]
	w.res.Fault(fmt.Sprintf("adversarial-response-%d", kind))
	switch kind {
	case 0: // itself, the asker, the target
		add(self)
		add(asker)
		var t p2p.PeerID
		copy(t[:], w.target)
		add(t)
	case 1: // everybody it has ever seen asked, in reverse (cycles), plus duplicates
		for i := len(w.asked) - 1; i >= 0; i-- {
			add(w.asked[i])
		}
		for _, id := range w.ids[:min(len(w.ids), 5)] {
			add(id)
			add(id)
		}
	case 2: // an enormous list
		n := 10000
		for i := 0; i < n; i++ {
			add(w.ids[i%len(w.ids)])
		}
	case 3: // fabricated ids ever closer to the target (bounded per operation)
		for i := 0; i < 3 && w.fab < 40; i++ {
			w.fab++
			var id p2p.PeerID
			copy(id[:], w.target)
			// differ from the target in a low bit position that moves down
			pos := 255 - (w.fab % 200)
			id[pos/8] ^= 0x80 >> uint(pos%8)
			st.Bytes(id[31:])
			add(id)
		}
	case 4: // all other adversaries and all honest nodes, shuffled by the stream
		for _, id := range w.ids {
			if st.Bool(1, 2) {
				add(id)
			}
		}
	}
	for _, n := range out {
		w.mentioned[n.ID] = true
	}
	return out
}

func (w *dhtWorld) findNodeFunc(asker p2p.PeerID) kademlia.FindNodeFunc {
	return func(n kademlia.NodeInfo, req kademlia.FindNodeReq) (kademlia.FindNodeRes, error) {
		if err := w.contact(n.ID); err != nil {
			return kademlia.FindNodeRes{}, err
		}
		if _, isAdv := w.adv[n.ID]; isAdv {
			w.responded[n.ID] = true
			return kademlia.FindNodeRes{Nodes: w.advList(n.ID, asker)}, nil
		}
		node := w.nodes[n.ID]
		if node == nil {
			return kademlia.FindNodeRes{}, errNet // nobody lives there
		}
		res, err := node.HandleFindNode(asker, req)
		if err == nil {
			w.responded[n.ID] = true
			for _, x := range res.Nodes {
				w.mentioned[x.ID] = true
			}
		}
		return res, err
	}
}

func valueFor(key []byte, gen int) []byte {
	return append([]byte(fmt.Sprintf("V%d:", gen)), key...)
}

func validValue(key, v []byte) bool {
	return len(v) > len(key) && bytes.HasSuffix(v, key) && v[0] == 'V'
}

func (w *dhtWorld) getFunc(asker p2p.PeerID) kademlia.GetFunc {
	return func(n kademlia.NodeInfo, req kademlia.GetReq) (kademlia.GetRes, error) {
		if err := w.contact(n.ID); err != nil {
			return kademlia.GetRes{}, err
		}
		if _, isAdv := w.adv[n.ID]; isAdv {
			w.responded[n.ID] = true
			r := kademlia.GetRes{Closer: w.advList(n.ID, asker)}
			if w.st.Bool(1, 2) {
				r.Value = []byte("bogus-value-that-fails-validation")
				w.res.Fault("bogus-value")
			}
			w.values[n.ID] = r.Value
			return r, nil
		}
		node := w.nodes[n.ID]
		if node == nil {
			return kademlia.GetRes{}, errNet
		}
		res, err := node.HandleGet(asker, req)
		if err == nil {
			w.responded[n.ID] = true
			w.values[n.ID] = res.Value
			for _, x := range res.Closer {
				w.mentioned[x.ID] = true
			}
		}
		return res, err
	}
}

func (w *dhtWorld) putFunc(asker p2p.PeerID) kademlia.PutFunc {
	return func(n kademlia.NodeInfo, req kademlia.PutReq) (kademlia.PutRes, error) {
		if err := w.contact(n.ID); err != nil {
			return kademlia.PutRes{}, err
		}
		if _, isAdv := w.adv[n.ID]; isAdv {
			w.responded[n.ID] = true
			acc := w.st.Bool(1, 2)
			if acc {
				w.accepted[n.ID] = true
			}
			return kademlia.PutRes{Accepted: acc, Closer: w.advList(n.ID, asker)}, nil
		}
		node := w.nodes[n.ID]
		if node == nil {
			return kademlia.PutRes{}, errNet
		}
		res, err := node.HandlePut(asker, req)
		if err == nil {
			w.responded[n.ID] = true
			if res.Accepted {
				w.accepted[n.ID] = true
			}
			for _, x := range res.Closer {
				w.mentioned[x.ID] = true
			}
		}
		return res, err
	}
}

func (w *dhtWorld) guard(what string, f func()) (panicked bool) {
	defer func() {
		if r := recover(); r != nil {
			panicked = true
			w.res.Violate(w.step, "panic", "%s panicked: %v", what, r).With("stack", string(debug.Stack())).With("op", what)
		}
	}()
	f()
	return false
}

func (w *dhtWorld) initialPeers() []kademlia.NodeInfo {
	st := w.st
	var n int
	switch st.Intn(5) {
	case 0:
		n = 0
	case 1:
		n = 1
	case 2:
		n = 2
	case 3:
		n = 1 + st.Intn(len(w.ids))
	case 4:
		n = len(w.ids)
	}
	var out []kademlia.NodeInfo
	for i := 0; i < n; i++ {
		id := w.ids[st.Intn(len(w.ids))]
		out = append(out, kademlia.NodeInfo{ID: id, Info: info(id)})
	}
	return out
}

// commonOracle: bounded and non-redundant.
func (w *dhtWorld) commonOracle(op string, ninit int) {
	res := w.res
	res.Checks++
	if w.cut {
		res.Violate(w.step, "does-not-terminate", "%s made %d asks with only %d distinct ids ever mentioned; cut", op, len(w.asked), len(w.mentioned)).With("op", op)
		return
	}
	for _, id := range w.asked {
		if w.askCount[id] > 1 {
			res.Violate(w.step, "node-contacted-twice", "%s contacted node %x %d times (initial peers %d, %d asks, %d distinct ids mentioned)", op, id[:4], w.askCount[id], ninit, len(w.asked), len(w.mentioned)).With("op", op)
			break
		}
	}
	if len(w.asked) > 1 {
		res.Probe("multi-hop-" + op)
	}
}

func (w *dhtWorld) nearestAsked() (best p2p.PeerID, ok bool) {
	for _, id := range w.asked {
		if !ok || cmpDist(w.target, id[:], best[:]) < 0 {
			best, ok = id, true
		}
	}
	return
}

func (w *dhtWorld) checkClosest(op string, closest p2p.PeerID) {
	res := w.res
	res.Checks++
	best, ok := w.nearestAsked()
	if !ok {
		return
	}
	if closest.IsZero() {
		res.Violate(w.step, "closest-not-reported", "%s contacted %d nodes but reports no closest node", op, len(w.asked)).With("op", op)
		return
	}
	if cmpDist(w.target, best[:], closest[:]) < 0 {
		res.Violate(w.step, "closest-not-nearest", "%s reports closest %x although it contacted %x, which is nearer to the target", op, closest[:4], best[:4]).With("op", op)
	}
}

// RunC20 builds a network and runs iterative operations from random origins.
func RunC20(st *simcore.Stream, tier, leg string, logOn bool, res *simcore.Result) {
	w := &dhtWorld{st: st, res: res, nodes: map[p2p.PeerID]*kademlia.DHTNode{}, adv: map[p2p.PeerID]int{}, down: map[p2p.PeerID]bool{}}
	nn := 3 + st.Intn(28)
	if tier == "thorough" && st.Bool(1, 8) {
		nn = 60 + st.Intn(140)
	}
	dense := st.Bool(1, 3)
	nadv := 0
	if leg == "adversarial" {
		nadv = 1 + st.Intn(3)
	}
	w.fail = []int{0, 0, 4, 16}[st.Intn(4)]
	peerCache := []int{8, 16, 64, 256}[st.Intn(4)]
	dataCache := []int{0, 4, 64}[st.Intn(3)]
	res.Cfg = map[string]any{"nodes": nn, "dense": dense, "adversaries": nadv, "fail_per_64": w.fail, "peerCache": peerCache, "dataCache": dataCache, "leg": leg}
	for i := 0; i < nn; i++ {
		id := w.genID(dense && st.Bool(2, 3))
		w.ids = append(w.ids, id)
		if i < nadv {
			w.adv[id] = st.Intn(5)
			continue
		}
		var node *kademlia.DHTNode
		if w.guard("NewDHTNode", func() {
			node = kademlia.NewDHTNode(kademlia.DHTNodeParams{LocalID: id, PeerCacheSize: peerCache, DataCacheSize: dataCache})
		}) {
			return
		}
		w.nodes[id] = node
	}
	honest := func() p2p.PeerID {
		for {
			id := w.ids[st.Intn(len(w.ids))]
			if w.nodes[id] != nil {
				return id
			}
		}
	}
	if len(w.nodes) == 0 {
		return
	}
	// bootstrap: random links, then simulated joins
	for _, id := range w.ids {
		node := w.nodes[id]
		if node == nil {
			continue
		}
		for k := 0; k < 1+st.Intn(4); k++ {
			o := w.ids[st.Intn(len(w.ids))]
			w.guard("AddPeer", func() { node.AddPeer(o, info(o)) })
		}
	}
	nops := 3 + st.Intn(12)
	gen := 0
	for i := 0; i < nops; i++ {
		w.step++
		time.Sleep(time.Duration(1+st.Intn(2000)) * time.Millisecond)
		origin := honest()
		switch st.Choose(6, []int{3, 3, 3, 3, 1, 1}, "c20") {
		case 0: // find node
			var target p2p.PeerID
			if st.Bool(1, 2) {
				target = w.ids[st.Intn(len(w.ids))]
			} else {
				target = w.genID(dense)
			}
			initial := w.initialPeers()
			w.beginOp(target[:], initial)
			var r *kademlia.DHTFindNodeResult
			var err error
			if w.guard("DHTFindNode", func() {
				r, err = kademlia.DHTFindNode(kademlia.DHTFindNodeParams{Initial: append([]kademlia.NodeInfo{}, initial...), Target: target, Ask: w.findNodeFunc(origin)})
			}) {
				w.res.Violations[len(w.res.Violations)-1].With("initial", len(initial))
				continue
			}
			w.logf("findnode target=%x initial=%d -> asks=%d closest=%x err=%v", target[:4], len(initial), len(w.asked), r.Closest[:4], err != nil)
			w.commonOracle("findnode", len(initial))
			res.Checks++
			if (err == nil) != (r.Closest == target) {
				res.Violate(w.step, "findnode-error-mismatch", "find node: err=%v but closest==target is %v", err, r.Closest == target)
			}
			if r.Closest != target {
				w.checkClosest("findnode", r.Closest)
			}
		case 1: // join
			initial := w.initialPeers()
			w.beginOp(origin[:], initial)
			node := w.nodes[origin]
			added := 0
			if w.guard("DHTJoin", func() {
				added = kademlia.DHTJoin(kademlia.DHTJoinParams{Initial: append([]kademlia.NodeInfo{}, initial...), Target: origin, Ask: w.findNodeFunc(origin), AddPeer: node.AddPeer})
			}) {
				w.res.Violations[len(w.res.Violations)-1].With("initial", len(initial))
				continue
			}
			w.logf("join origin=%x initial=%d -> asks=%d added=%d", origin[:4], len(initial), len(w.asked), added)
			w.commonOracle("join", len(initial))
		case 2: // put
			gen++
			key := make([]byte, 32)
			st.Bytes(key)
			if dense {
				for k := 0; k < 29; k++ {
					key[k] = 0xAB
				}
			}
			initial := w.initialPeers()
			w.beginOp(key, initial)
			minAcc := st.Intn(4)
			var r *kademlia.DHTPutResult
			var err error
			if w.guard("DHTPut", func() {
				r, err = kademlia.DHTPut(kademlia.DHTPutParams{Initial: append([]kademlia.NodeInfo{}, initial...), Key: key, Value: valueFor(key, gen), TTL: time.Hour, Ask: w.putFunc(origin), MinAccepted: minAcc})
			}) {
				w.res.Violations[len(w.res.Violations)-1].With("initial", len(initial))
				continue
			}
			eff := minAcc
			if eff < 1 {
				eff = 2 // documented default
			}
			w.logf("put key=%x initial=%d min=%d -> asks=%d accepted=%d (distinct accepting %d) err=%v", key[:4], len(initial), minAcc, len(w.asked), r.Accepted, len(w.accepted), err != nil)
			w.commonOracle("put", len(initial))
			res.Checks++
			if r.Accepted != len(w.accepted) {
				res.Violate(w.step, "accepted-count-wrong", "put reports Accepted=%d but %d distinct nodes accepted", r.Accepted, len(w.accepted))
			}
			if (err != nil) != (len(w.accepted) < eff) {
				res.Violate(w.step, "put-error-mismatch", "put: %d distinct nodes accepted, minimum %d, err=%v", len(w.accepted), eff, err)
			}
			if len(w.accepted) > 0 {
				// nearest among the accepting nodes it contacted
				var best p2p.PeerID
				first := true
				for _, id := range w.asked {
					if w.accepted[id] && (first || cmpDist(key, id[:], best[:]) < 0) {
						best, first = id, false
					}
				}
				if r.Closest.IsZero() {
					res.Violate(w.step, "closest-not-reported", "put was accepted by %d nodes but reports no closest node", len(w.accepted)).With("op", "put")
				} else if cmpDist(key, best[:], r.Closest[:]) < 0 {
					res.Violate(w.step, "closest-not-nearest", "put reports closest %x although %x accepted and is nearer", r.Closest[:4], best[:4]).With("op", "put")
				}
			}
		case 3: // get
			key := make([]byte, 32)
			st.Bytes(key)
			// store it somewhere first (sometimes nowhere)
			stored := 0
			if st.Bool(3, 4) {
				gen++
				// the nodes nearest to the key hold it
				ids := append([]p2p.PeerID{}, w.ids...)
				sort.Slice(ids, func(a, b int) bool { return cmpDist(key, ids[a][:], ids[b][:]) < 0 })
				for _, id := range ids {
					if n := w.nodes[id]; n != nil && stored < 1+st.Intn(3) {
						w.guard("Put", func() {
							if n.Put(key, valueFor(key, gen), time.Hour) {
								stored++
							}
						})
					}
				}
			}
			initial := w.initialPeers()
			w.beginOp(key, initial)
			var r *kademlia.DHTGetResult
			var err error
			if w.guard("DHTGet", func() {
				r, err = kademlia.DHTGet(kademlia.DHTGetParams{Key: key, Initial: append([]kademlia.NodeInfo{}, initial...), Ask: w.getFunc(origin), Validate: func(v []byte) bool { return validValue(key, v) }})
			}) {
				w.res.Violations[len(w.res.Violations)-1].With("initial", len(initial))
				continue
			}
			w.logf("get key=%x stored=%d initial=%d -> asks=%d found=%v from=%x closest=%x err=%v", key[:4], stored, len(initial), len(w.asked), r.Value != nil, r.From[:4], r.Closest[:4], err != nil)
			w.commonOracle("get", len(initial))
			res.Checks++
			if r.Value != nil {
				res.Probe("get-found")
				if !validValue(key, r.Value) {
					res.Violate(w.step, "get-invalid-value", "get returned a value that does not pass validation")
				}
				if w.askCount[r.From] == 0 || !bytes.Equal(w.values[r.From], r.Value) {
					res.Violate(w.step, "get-value-not-from-contacted", "get reports value from %x, which was not contacted or did not return that value", r.From[:4])
				}
			}
			if (err != nil) != (r.Value == nil) {
				res.Violate(w.step, "get-error-mismatch", "get: value found=%v but err=%v", r.Value != nil, err)
			}
			if len(w.responded) > 0 {
				// closest: nearest among the contacted nodes that responded
				var best p2p.PeerID
				first := true
				for _, id := range w.asked {
					if w.responded[id] && (first || cmpDist(key, id[:], best[:]) < 0) {
						best, first = id, false
					}
				}
				if r.Closest.IsZero() {
					res.Violate(w.step, "closest-not-reported", "get had %d responders but reports no closest node", len(w.responded)).With("op", "get")
				} else if cmpDist(key, best[:], r.Closest[:]) < 0 {
					res.Violate(w.step, "closest-not-nearest", "get reports closest %x although %x responded and is nearer to the key", r.Closest[:4], best[:4]).With("op", "get")
				}
			}
		case 4: // crash / restart a node
			id := w.ids[st.Intn(len(w.ids))]
			w.down[id] = !w.down[id]
			res.Fault("crash-or-restart")
		case 5: // churn: a node forgets a peer
			id := honest()
			o := w.ids[st.Intn(len(w.ids))]
			w.guard("RemovePeer", func() { w.nodes[id].RemovePeer(o) })
		}
	}
	res.Steps = w.step
	res.Nontrivial = res.Probes["multi-hop-findnode"]+res.Probes["multi-hop-get"]+res.Probes["multi-hop-put"]+res.Probes["multi-hop-join"] > 0
	res.TraceHash = hashLines(w.trace) + fmt.Sprintf("-%d", res.Checks)
	res.Sample = head(w.trace, 25)
	if logOn {
		res.Log = w.trace
	}
}
