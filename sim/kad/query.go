package kad

import (
	"bytes"
	"fmt"
	"sort"

	"go.brendoncarroll.net/p2p/p/kademlia"

	"verifsim/simcore"
)

// cmpDist compares the XOR distances k^a and k^b as big-endian numbers over the
// common length (independent of the package's own comparison).
func cmpDist(k, a, b []byte) int {
	da, db := xorDist(k, a), xorDist(k, b)
	n := len(da)
	if len(db) < n {
		n = len(db)
	}
	return bytes.Compare(da[:n], db[:n])
}

// queryInvariants: C19 on the current cache content for nq generated query keys.
func (w *cacheWorld) queryInvariants(nq int) {
	if w.dead {
		return
	}
	res := w.res
	for q := 0; q < nq && !w.dead; q++ {
		k := w.genKey()
		ents := w.enumerate(k)
		if w.dead {
			return
		}
		res.Checks++
		// every entry exactly once
		seen := map[string]int{}
		for _, e := range ents {
			seen[string(e.Key)]++
		}
		for _, key := range w.sortedKeys() {
			if seen[key] != 1 {
				res.Violate(w.step, "foreach-incomplete", "ForEach(%x) visited key %x %d times (cache holds %d entries, visited %d)", k, []byte(key), seen[key], len(w.model), len(ents))
				break
			}
		}
		// non-decreasing distance
		for i := 1; i < len(ents); i++ {
			if cmpDist(k, ents[i-1].Key, ents[i].Key) > 0 {
				res.Violate(w.step, "foreach-order", "ForEach(%x) with locus %x visited %x (distance %x) before %x (distance %x)", k, w.locus, ents[i-1].Key, xorDist(k, ents[i-1].Key), ents[i].Key, xorDist(k, ents[i].Key)).
					With("locus", fmt.Sprintf("%x", w.locus)).With("query", fmt.Sprintf("%x", k))
				break
			}
		}
		if len(ents) > 1 {
			res.Probe("order-checked-multi")
		}
		// Closest is a true minimum
		var cl *kademlia.Entry[int]
		if w.guard("Closest", func() { cl = w.c.Closest(k) }) {
			return
		}
		res.Checks++
		if len(w.model) == 0 {
			if cl != nil {
				res.Violate(w.step, "closest-on-empty", "Closest(%x) on an empty cache returned %x", k, cl.Key)
			}
		} else if cl == nil {
			res.Violate(w.step, "closest-nil", "Closest(%x) returned nil although the cache holds %d entries", k, len(w.model))
		} else {
			for _, key := range w.sortedKeys() {
				if cmpDist(k, []byte(key), cl.Key) < 0 {
					res.Violate(w.step, "closest-not-minimum", "Closest(%x) with locus %x returned %x (distance %x) although %x is nearer (distance %x)", k, w.locus, cl.Key, xorDist(k, cl.Key), []byte(key), xorDist(k, []byte(key)))
					break
				}
			}
		}
		// closer-than-me: all and only the entries nearer to k than the locus is
		var closer []kademlia.Entry[int]
		if w.guard("ForEachCloser", func() {
			w.c.ForEachCloser(k, func(e kademlia.Entry[int]) bool {
				closer = append(closer, e)
				return true
			})
		}) {
			return
		}
		res.Checks++
		got := map[string]bool{}
		for _, e := range closer {
			got[string(e.Key)] = true
			if cmpDist(k, e.Key, w.locus) >= 0 {
				res.Violate(w.step, "closer-includes-farther", "ForEachCloser(%x) yielded %x which is not nearer to the key than the locus %x", k, e.Key, w.locus)
			}
		}
		nwant := 0
		for _, key := range w.sortedKeys() {
			if cmpDist(k, []byte(key), w.locus) < 0 {
				nwant++
				if !got[key] {
					res.Violate(w.step, "closer-misses-entry", "ForEachCloser(%x) with locus %x did not yield %x (distance %x < locus distance %x); it yielded %d of the nearer entries", k, w.locus, []byte(key), xorDist(k, []byte(key)), xorDist(k, w.locus), len(closer))
					break
				}
			}
		}
		if nwant > 0 {
			res.Probe("closer-nonempty")
		}
		// prefix matching
		if len(k) > 0 {
			nbits := w.st.Intn(len(k)*8 + 1)
			var matched []kademlia.Entry[int]
			if w.guard("ForEachMatching", func() {
				w.c.ForEachMatching(k, nbits, func(e kademlia.Entry[int]) bool {
					matched = append(matched, e)
					return true
				})
			}) {
				w.res.Violations[len(w.res.Violations)-1].With("nbits", nbits).With("prefixLen", len(k))
				return
			}
			res.Checks++
			gotm := map[string]bool{}
			for _, e := range matched {
				gotm[string(e.Key)] = true
			}
			for _, key := range w.sortedKeys() {
				want := len(key)*8 >= nbits && lzBits(xorDist([]byte(key), k)) >= nbits
				if want != gotm[key] {
					res.Violate(w.step, "matching-wrong", "ForEachMatching(%x, %d bits): key %x matched=%v, expected %v", k, nbits, []byte(key), gotm[key], want)
					break
				}
			}
		}
	}
}

// RunC19: the same generated histories as C18, with the query invariants
// evaluated after every mutation for several query keys.
func RunC19(st *simcore.Stream, tier, leg string, logOn bool, res *simcore.Result) {
	w := newCacheWorld(st, res)
	if w.dead {
		return
	}
	w.resync = true
	n := 5 + st.Intn(60)
	res.Cfg["ops"] = n
	for i := 0; i < n && !w.dead; i++ {
		w.step++
		w.tick()
		switch st.Choose(4, []int{10, 2, 2, 1}, "c19") {
		case 0:
			w.put(false)
		case 1:
			w.put(true)
		case 2:
			w.del()
		case 3:
			w.expire()
		}
		w.queryInvariants(2)
	}
	// C18's own violations are reported by C18; keep only the query classes here
	var keep []simcore.Violation
	for _, v := range res.Violations {
		switch v.Class {
		case "foreach-incomplete", "foreach-order", "closest-on-empty", "closest-nil", "closest-not-minimum", "closer-includes-farther", "closer-misses-entry", "matching-wrong":
			keep = append(keep, v)
		case "panic":
			if op, _ := v.Detail["op"].(string); op == "ForEach" || op == "Closest" || op == "ForEachCloser" || op == "ForEachMatching" {
				keep = append(keep, v)
			}
		}
	}
	res.Violations = keep
	res.Steps = w.step
	res.Nontrivial = res.Probes["order-checked-multi"] > 0
	res.TraceHash = hashLines(w.trace) + fmt.Sprintf("-%d", res.Checks)
	res.Sample = head(w.trace, 25)
	if logOn {
		res.Log = w.trace
	}
	_ = sort.Strings
}
