// Package kad simulates the Kademlia cache and DHT. The cache is goroutine-free
// and takes `now` as an argument: the harness is clock and workload, the oracle
// is a reference map with a relational eviction rule (C18) and a brute-force
// distance sort (C19).
package kad

import (
	"bytes"
	"fmt"
	"math/bits"
	"runtime/debug"
	"sort"
	"time"

	"go.brendoncarroll.net/p2p/p/kademlia"

	"verifsim/simcore"
)

var t0 = time.Date(2024, 5, 6, 7, 8, 9, 0, time.UTC)

type mEntry struct {
	Key       []byte
	Val       int
	CreatedAt time.Time
	ExpiresAt time.Time
}

type cacheWorld struct {
	st    *simcore.Stream
	res   *simcore.Result
	c     *kademlia.Cache[int]
	locus []byte
	extra int // keys are this many bytes longer than the locus
	max   int
	minPB int
	model map[string]*mEntry
	now   time.Time
	step  int
	trace []string
	nextV int
	dead  bool // the cache panicked: stop using it
	// resync: after a state mismatch adopt the cache's own content as the
	// reference, so that one defect is reported once and later checks (C19's
	// query invariants) are not confounded by it
	resync bool
}

func (w *cacheWorld) logf(format string, args ...any) {
	if len(w.trace) < 300 {
		w.trace = append(w.trace, fmt.Sprintf("%d ", w.step)+fmt.Sprintf(format, args...))
	}
}

func (w *cacheWorld) guard(what string, f func()) (panicked bool) {
	defer func() {
		if r := recover(); r != nil {
			panicked = true
			w.dead = true
			w.res.Violate(w.step, "panic", "%s panicked: %v", what, r).With("stack", string(debug.Stack())).With("op", what)
		}
	}()
	f()
	return false
}

// independent distance helpers (big-endian XOR, written from the definition)
func xorDist(a, b []byte) []byte {
	n := len(a)
	if len(b) < n {
		n = len(b)
	}
	d := make([]byte, n)
	for i := 0; i < n; i++ {
		d[i] = a[i] ^ b[i]
	}
	return d
}

func lzBits(d []byte) int {
	n := 0
	for _, x := range d {
		if x == 0 {
			n += 8
			continue
		}
		n += bits.LeadingZeros8(x)
		break
	}
	return n
}

func (w *cacheWorld) bucketOf(key []byte) int {
	d := make([]byte, len(w.locus))
	copy(d, xorDist(w.locus, key))
	return lzBits(d)
}

func (w *cacheWorld) genKey() []byte {
	st := w.st
	n := len(w.locus)
	k := make([]byte, n+w.extra)
	if w.extra > 0 {
		// keys longer than the locus (DHTNode truncates the locus of small caches): a random tail
		st.Bytes(k[n:])
		if st.Bool(1, 3) {
			for i := n; i < len(k); i++ {
				k[i] &= 0x01 // many ties on the part the locus covers
			}
		}
	}
	switch st.Intn(6) {
	case 0: // anywhere
		st.Bytes(k[:n])
	case 1, 2: // share a random number of leading bits with the locus
		copy(k, w.locus)
		bit := st.Intn(n*8 + 1)
		if bit < n*8 {
			k[bit/8] ^= 0x80 >> uint(bit%8)
			// randomise the bits after it
			tail := make([]byte, n)
			st.Bytes(tail)
			for b := bit + 1; b < n*8; b++ {
				if tail[b/8]&(0x80>>uint(b%8)) != 0 {
					k[b/8] ^= 0x80 >> uint(b%8)
				}
			}
		}
	case 3: // small universe
		st.Bytes(k[:n])
		for i := range k[:n] {
			k[i] &= 0x0f
		}
	case 4: // an existing key
		keys := w.sortedKeys()
		if len(keys) > 0 {
			return []byte(keys[st.Intn(len(keys))])
		}
		st.Bytes(k)
	case 5: // top bits only
		st.Bytes(k)
		for i := range k {
			k[i] &= 0xf0
		}
	}
	return k
}

func (w *cacheWorld) sortedKeys() []string {
	ks := make([]string, 0, len(w.model))
	for k := range w.model {
		ks = append(ks, k)
	}
	sort.Strings(ks)
	return ks
}

// enumerate returns everything ForEach(k) yields.
func (w *cacheWorld) enumerate(k []byte) (out []kademlia.Entry[int]) {
	w.guard("ForEach", func() {
		w.c.ForEach(k, func(e kademlia.Entry[int]) bool {
			out = append(out, e)
			return true
		})
	})
	return out
}

// checkState: C18 state invariants after every operation.
func (w *cacheWorld) checkState(after string) {
	if w.dead {
		return
	}
	res := w.res
	res.Checks++
	var cnt int
	w.guard("Count", func() { cnt = w.c.Count() })
	ents := w.enumerate(w.locus)
	if w.dead {
		return
	}
	if cnt != len(w.model) || len(ents) != len(w.model) {
		res.Violate(w.step, "count-mismatch", "after %s: Count()=%d, enumerated=%d, reference map holds %d", after, cnt, len(ents), len(w.model)).With("after", opKind(after))
	}
	if cnt > w.max || len(ents) > w.max {
		res.Violate(w.step, "over-capacity", "after %s: Count()=%d enumerated=%d exceed capacity %d", after, cnt, len(ents), w.max)
	}
	seen := map[string]bool{}
	for _, e := range ents {
		m, ok := w.model[string(e.Key)]
		switch {
		case seen[string(e.Key)]:
			res.Violate(w.step, "enumerated-twice", "after %s: key %x enumerated twice", after, e.Key)
		case !ok:
			res.Violate(w.step, "phantom-entry", "after %s: cache holds key %x which the reference map does not", after, e.Key).With("after", opKind(after))
		case m.Val != e.Value:
			res.Violate(w.step, "stale-value", "after %s: key %x holds value %d, latest stored is %d", after, e.Key, e.Value, m.Val)
		}
		seen[string(e.Key)] = true
	}
	mismatch := cnt != len(w.model) || len(ents) != len(w.model)
	for _, k := range w.sortedKeys() {
		if !seen[k] {
			res.Violate(w.step, "lost-entry", "after %s: key %x vanished without delete, expiry or reported eviction", after, []byte(k)).With("after", opKind(after))
			mismatch = true
			break
		}
	}
	if w.resync && mismatch {
		w.model = map[string]*mEntry{}
		for _, e := range ents {
			w.model[string(e.Key)] = &mEntry{Key: e.Key, Val: e.Value, CreatedAt: e.CreatedAt, ExpiresAt: e.ExpiresAt}
		}
	}
}

func opKind(s string) string {
	for i := 0; i < len(s); i++ {
		if s[i] == ' ' || s[i] == '(' {
			return s[:i]
		}
	}
	return s
}

func (w *cacheWorld) put(update bool) {
	st, res := w.st, w.res
	key := w.genKey()
	w.nextV++
	val := w.nextV
	now := w.now
	var exp time.Time
	switch st.Intn(4) {
	case 0: // never expires
	case 1:
		exp = now.Add(time.Duration(1+st.Intn(20)) * time.Second)
	case 2:
		exp = now.Add(time.Duration(1+st.Intn(5)) * time.Hour)
	case 3:
		exp = now // expires as soon as time moves
	}
	_, existed := w.model[string(key)]
	var evicted *kademlia.Entry[int]
	var added bool
	name := "Put"
	if update {
		name = "Update"
		if w.guard(name, func() {
			evicted, added = w.c.Update(key, func(e kademlia.Entry[int], ex bool) kademlia.Entry[int] {
				res.Checks++
				if ex != existed {
					res.Violate(w.step, "update-exists-wrong", "Update(%x): callback got exists=%v, reference says %v", key, ex, existed)
				}
				if ex && w.model[string(key)] != nil && e.Value != w.model[string(key)].Val {
					res.Violate(w.step, "stale-value", "Update(%x): callback got value %d, latest stored is %d", key, e.Value, w.model[string(key)].Val)
				}
				return kademlia.Entry[int]{Key: key, Value: val, CreatedAt: now, ExpiresAt: exp}
			})
		}) {
			return
		}
	} else {
		if w.guard(name, func() { evicted, added = w.c.Put(key, val, now, exp) }) {
			return
		}
	}
	what := fmt.Sprintf("%s(%x)=%d", name, key, val)
	w.logf("%s existed=%v -> evicted=%v added=%v", what, existed, evictedKey(evicted), added)
	if w.max == 0 {
		res.Checks++
		if evicted != nil || added {
			res.Violate(w.step, "zero-capacity-accepts", "%s on a zero-capacity cache returned evicted=%v added=%v", what, evictedKey(evicted), added)
		}
		w.checkState(what)
		return
	}
	// bucket sizes including the new entry, before any eviction
	w.model[string(key)] = &mEntry{Key: key, Val: val, CreatedAt: now, ExpiresAt: exp}
	sizes := map[int]int{}
	for k := range w.model {
		sizes[w.bucketOf([]byte(k))]++
	}
	res.Checks++
	if len(w.model) <= w.max {
		if evicted != nil {
			res.Violate(w.step, "evicted-without-need", "%s reported eviction of %x although the cache was not over capacity (%d/%d)", what, evicted.Key, len(w.model), w.max)
			delete(w.model, string(evicted.Key))
		}
		if !existed && !added {
			res.Violate(w.step, "add-not-reported", "%s added a new key but reported added=false", what)
		}
	} else {
		res.Probe("eviction")
		if evicted == nil {
			res.Violate(w.step, "no-victim-reported", "%s took the cache over capacity (%d/%d) but reported no eviction", what, len(w.model), w.max)
		} else {
			if _, ok := w.model[string(evicted.Key)]; !ok {
				res.Violate(w.step, "victim-not-an-entry", "%s reported evicting %x, which was not in the cache", what, evicted.Key).With("zeroKey", len(evicted.Key) == 0)
			} else {
				vb := w.bucketOf(evicted.Key)
				far := -1
				for b := 0; b <= len(w.locus)*8; b++ {
					if sizes[b] > w.minPB {
						far = b
						break
					}
				}
				if far >= 0 && vb != far {
					res.Violate(w.step, "wrong-victim-bucket", "%s evicted %x from bucket %d (size %d, min %d); the farthest non-protected bucket is %d (size %d)", what, evicted.Key, vb, sizes[vb], w.minPB, far, sizes[far])
				}
				if far < 0 {
					res.Probe("eviction-with-every-bucket-protected")
				}
				if bytes.Equal(evicted.Key, key) == added {
					res.Violate(w.step, "added-flag-wrong", "%s: evicted=%x added=%v", what, evicted.Key, added)
				}
				delete(w.model, string(evicted.Key))
			}
		}
	}
	w.checkState(what)
}

func evictedKey(e *kademlia.Entry[int]) string {
	if e == nil {
		return "nil"
	}
	return fmt.Sprintf("%x", e.Key)
}

func (w *cacheWorld) del() {
	key := w.genKey()
	_, existed := w.model[string(key)]
	var e *kademlia.Entry[int]
	if w.guard("Delete", func() { e = w.c.Delete(key) }) {
		return
	}
	what := fmt.Sprintf("Delete(%x)", key)
	w.logf("%s existed=%v -> %v", what, existed, evictedKey(e))
	w.res.Checks++
	if existed {
		if e == nil || !bytes.Equal(e.Key, key) || e.Value != w.model[string(key)].Val {
			w.res.Violate(w.step, "delete-wrong-result", "%s of an existing key returned %v", what, evictedKey(e))
		}
		delete(w.model, string(key))
	}
	w.checkState(what)
}

func (w *cacheWorld) expire() {
	var out []kademlia.Entry[int]
	if w.guard("Expire", func() { out = w.c.Expire(nil, w.now) }) {
		return
	}
	what := fmt.Sprintf("Expire(t+%v)", w.now.Sub(t0))
	want := map[string]bool{}
	for _, k := range w.sortedKeys() {
		if m := w.model[k]; !m.ExpiresAt.IsZero() && m.ExpiresAt.Before(w.now) {
			want[k] = true
		}
	}
	w.logf("%s -> %d entries (reference expects %d)", what, len(out), len(want))
	res := w.res
	res.Checks++
	got := map[string]bool{}
	for _, e := range out {
		got[string(e.Key)] = true
		if !want[string(e.Key)] {
			res.Violate(w.step, "expired-too-early", "%s returned key %x which is not past its time", what, e.Key)
		}
	}
	for _, k := range w.sortedKeys() {
		if want[k] && !got[k] {
			res.Violate(w.step, "expiry-missed", "%s did not return key %x although it is past its time", what, []byte(k))
			break
		}
	}
	for k := range got {
		delete(w.model, k)
	}
	if len(got) > 0 {
		res.Probe("expired-something")
	}
	w.checkState(what)
}

func (w *cacheWorld) lookup() {
	key := w.genKey()
	m, existed := w.model[string(key)]
	var v int
	var ok, contains bool
	if w.guard("Get", func() { v, ok = w.c.Get(key, w.now) }) {
		return
	}
	if w.guard("Contains", func() { contains = w.c.Contains(key, w.now) }) {
		return
	}
	w.res.Checks++
	if ok != existed || contains != existed || (existed && v != m.Val) {
		w.res.Violate(w.step, "lookup-wrong", "Get(%x)=(%d,%v) Contains=%v; reference: exists=%v value=%d", key, v, ok, contains, existed, valOf(m))
	}
}

func valOf(m *mEntry) int {
	if m == nil {
		return 0
	}
	return m.Val
}

func (w *cacheWorld) tick() {
	switch w.st.Intn(5) {
	case 0: // equal timestamps
	case 1:
		w.now = w.now.Add(time.Second)
	case 2:
		w.now = w.now.Add(15 * time.Second)
	case 3:
		w.now = w.now.Add(2 * time.Hour)
		w.res.Fault("clock-jump")
	case 4:
		w.now = w.now.Add(time.Nanosecond)
	}
}

func newCacheWorld(st *simcore.Stream, res *simcore.Result) *cacheWorld {
	w := &cacheWorld{st: st, res: res, model: map[string]*mEntry{}, now: t0}
	n := []int{1, 1, 2, 2, 4, 32}[st.Intn(6)]
	w.locus = make([]byte, n)
	st.Bytes(w.locus)
	if st.Bool(1, 4) {
		for i := range w.locus {
			w.locus[i] = 0
		}
	}
	if n < 32 && st.Bool(1, 3) {
		w.extra = []int{1, 2, 32 - n}[st.Intn(3)]
	}
	w.minPB = []int{0, 1, 1, 2}[st.Intn(4)]
	base := w.minPB * 8 * n
	switch st.Intn(5) {
	case 0:
		w.max = base // the smallest capacity the constructor accepts
	case 1:
		w.max = base + 1
	case 2:
		w.max = base + 1 + st.Intn(6)
	case 3:
		w.max = 1 + st.Intn(12)
		if w.max < base {
			w.max = base
		}
	case 4:
		w.max = base + st.Intn(40)
	}
	if st.Bool(1, 30) {
		w.max, w.minPB = 0, 0
	}
	w.guard("NewCache", func() { w.c = kademlia.NewCache[int](w.locus, w.max, w.minPB) })
	res.Cfg = map[string]any{"locus": fmt.Sprintf("%x", w.locus), "max": w.max, "minPerBucket": w.minPB, "keyBytesBeyondLocus": w.extra}
	return w
}

// RunC18 drives one cache through a generated history.
func RunC18(st *simcore.Stream, tier, leg string, logOn bool, res *simcore.Result) {
	w := newCacheWorld(st, res)
	if w.dead {
		return
	}
	zeroTimes := st.Bool(1, 10)
	if zeroTimes {
		w.now = time.Time{}
		res.Fault("zero-timestamps")
	}
	n := 5 + st.Intn(120)
	res.Cfg["ops"] = n
	res.Cfg["zeroTimes"] = zeroTimes
	for i := 0; i < n && !w.dead; i++ {
		w.step++
		if !zeroTimes {
			w.tick()
		}
		switch st.Choose(6, []int{10, 3, 3, 2, 4, 1}, "c18") {
		case 0:
			w.put(false)
		case 1:
			w.put(true)
		case 2:
			w.del()
		case 3:
			if zeroTimes {
				w.put(false)
			} else {
				w.expire()
			}
		case 4:
			w.lookup()
		case 5:
			w.queryInvariants(1)
		}
	}
	// the query invariants belong to C19 and are reported there
	var keep []simcore.Violation
	for _, v := range res.Violations {
		switch v.Class {
		case "foreach-incomplete", "foreach-order", "closest-on-empty", "closest-nil", "closest-not-minimum", "closer-includes-farther", "closer-misses-entry", "matching-wrong":
			continue
		case "panic":
			if op, _ := v.Detail["op"].(string); op == "Closest" || op == "ForEachCloser" || op == "ForEachMatching" {
				continue
			}
		}
		keep = append(keep, v)
	}
	res.Violations = keep
	res.Steps = w.step
	res.Nontrivial = res.Probes["eviction"] > 0 || res.Probes["expired-something"] > 0
	res.TraceHash = hashLines(w.trace) + fmt.Sprintf("-%d", res.Checks)
	res.Sample = head(w.trace, 25)
	if logOn {
		res.Log = w.trace
	}
}

func head(x []string, n int) []string {
	if len(x) > n {
		return x[:n]
	}
	return x
}

func hashLines(lines []string) string {
	var h uint64 = 1469598103934665603
	for _, l := range lines {
		for i := 0; i < len(l); i++ {
			h ^= uint64(l[i])
			h *= 1099511628211
		}
	}
	return fmt.Sprintf("%016x", h)
}
