// C13 — cancellation is prompt and each message is handed to exactly one
// receiver. Legs: tellhub, askhub, queue. Real code: s/swarmutil hubs.go and
// queue.go (instrumented); everything else (producers, receivers, cancellers,
// closer) is harness workload under the parking scheduler.
package c13

import (
	"bytes"
	"context"
	"errors"
	"fmt"
	"testing"

	"go.brendoncarroll.net/p2p"
	"go.brendoncarroll.net/p2p/s/memswarm"
	"go.brendoncarroll.net/p2p/s/swarmutil"
	"go.brendoncarroll.net/p2p/zsimrt"

	"verifsim/simcore"
)

type Addr = memswarm.Addr

func TestSim(t *testing.T) {
	simcore.Main("C13", []string{"tellhub", "askhub", "queue"}, func(st *simcore.Stream, tier, leg string, logOn bool, res *simcore.Result) {
		simcore.Bubble(t, res.Seed, func() {
			switch leg {
			case "tellhub":
				runHub(st, tier, logOn, res, false)
			case "askhub":
				runHub(st, tier, logOn, res, true)
			case "queue":
				runQueue(st, tier, logOn, res)
			default:
				panic("unknown leg " + leg)
			}
		})
	})
}

// op is one recorded API call.
type op struct {
	Kind     string // deliver | receive
	Task     string
	Msg      int // deliver: message id
	Call     int
	Ret      int // -1 while not returned
	Err      error
	N        int // askhub deliver: returned n
	Ctx      context.Context
	CancelAt int // step at which the harness cancelled its context (-1 never)
	CbMsgs   []int
	CbStart  []int
	CbEnd    []int
	CbRet    []int // askhub: what the handler returned
}

type hubWorld struct {
	sim      *zsimrt.Sim
	res      *simcore.Result
	ops      []*op
	payloads map[int][]byte
	closedAt int // step at which CloseWithError returned (-1 never)
	closeBeg int
	closeErr error
}

func payloadFor(st *simcore.Stream, id int) []byte {
	n := st.Intn(24)
	b := make([]byte, n+4)
	st.Bytes(b)
	b[0], b[1], b[2], b[3] = byte(id>>8), byte(id), 0xA5, byte(n)
	return b
}

var errCustomClose = errors.New("custom close reason")

func runHub(st *simcore.Stream, tier string, logOn bool, res *simcore.Result, ask bool) {
	sim := zsimrt.New(st)
	sim.LogOn = logOn
	sim.StopWhenIdle = true
	sim.MaxSteps = 4000
	w := &hubWorld{sim: sim, res: res, payloads: map[int][]byte{}, closedAt: -1, closeBeg: -1}

	nProd := 1 + st.Intn(3)
	nRecv := 1 + st.Intn(4)
	perProd := 1 + st.Intn(3)
	perRecv := 1 + st.Intn(3)
	doClose := st.Bool(1, 3)
	customErr := st.Bool(1, 2)
	cancelNum := st.Intn(3) // 0: never, 1: 1/4 of ops, 2: 1/2 of ops
	res.Cfg = map[string]any{"ask": ask, "prod": nProd, "recv": nRecv, "perProd": perProd, "perRecv": perRecv, "close": doClose, "cancel": cancelNum}

	tell := swarmutil.NewTellHub[Addr]()
	askh := swarmutil.NewAskHub[Addr]()

	mkctx := func(o *op) context.Context {
		ctx := context.Background()
		if cancelNum > 0 && st.Bool(cancelNum, 4) {
			c, cf := context.WithCancel(ctx)
			delay := st.Intn(6)
			zsimrt.Go("cancel", func() {
				for i := 0; i < delay; i++ {
					zsimrt.Yield("harness/cancel-wait")
				}
				o.CancelAt = sim.Step
				res.Fault("cancel")
				cf()
			})
			ctx = c
		}
		o.Ctx = ctx
		return ctx
	}

	callback := func(o *op, m p2p.Message[Addr]) {
		id := -1
		if len(m.Payload) >= 2 {
			id = int(m.Payload[0])<<8 | int(m.Payload[1])
		}
		o.CbMsgs = append(o.CbMsgs, id)
		o.CbStart = append(o.CbStart, sim.Step)
		want, ok := w.payloads[id]
		res.Checks++
		if !ok || !bytes.Equal(want, m.Payload) {
			res.Violate(sim.Step, "payload-mismatch", "callback saw payload %x, ledger has %x for id %d", m.Payload, want, id)
		}
		if m.Src.N != id%7 || m.Dst.N != 100+id%5 {
			res.Violate(sim.Step, "addr-mismatch", "callback saw src=%v dst=%v for id %d", m.Src, m.Dst, id)
		}
		sum := append([]byte{}, m.Payload...)
		for i, k := 0, st.Intn(4); i < k; i++ {
			zsimrt.Yield("harness/in-callback")
		}
		if !bytes.Equal(sum, m.Payload) {
			res.Violate(sim.Step, "buffer-changed-in-callback", "payload changed while the callback was running (id %d)", id)
		}
		o.CbEnd = append(o.CbEnd, sim.Step)
	}

	sim.Run(func() {
		msgID := 0
		for p := 0; p < nProd; p++ {
			ids := []int{}
			for j := 0; j < perProd; j++ {
				ids = append(ids, msgID)
				w.payloads[msgID] = payloadFor(st, msgID)
				msgID++
			}
			zsimrt.Go("prod", func() {
				for _, id := range ids {
					o := &op{Kind: "deliver", Task: zsimrt.Self(), Msg: id, Ret: -1, CancelAt: -1}
					ctx := mkctx(o)
					msg := p2p.Message[Addr]{Src: Addr{N: id % 7}, Dst: Addr{N: 100 + id%5}, Payload: append([]byte{}, w.payloads[id]...)}
					w.ops = append(w.ops, o)
					zsimrt.Yield("harness/before-deliver")
					o.Call = sim.Step
					if ask {
						buf := make([]byte, 64)
						n, err := askh.Deliver(ctx, buf, msg)
						o.N, o.Err = n, err
						if err == nil && n >= 0 {
							// the handler wrote id-derived bytes
							want := respFor(id, n)
							res.Checks++
							if n > len(buf) || !bytes.Equal(buf[:n], want) {
								res.Violate(sim.Step, "ask-response-mismatch", "deliver of %d returned n=%d bytes %x, handler wrote %x", id, n, buf[:min(n, len(buf))], want)
							}
						}
					} else {
						o.Err = tell.Deliver(ctx, msg)
					}
					o.Ret = sim.Step
					zsimrt.Yield("harness/after-deliver")
				}
			})
		}
		for r := 0; r < nRecv; r++ {
			zsimrt.Go("recv", func() {
				for j := 0; j < perRecv; j++ {
					o := &op{Kind: "receive", Task: zsimrt.Self(), Ret: -1, CancelAt: -1}
					ctx := mkctx(o)
					w.ops = append(w.ops, o)
					zsimrt.Yield("harness/before-receive")
					o.Call = sim.Step
					if ask {
						o.Err = askh.ServeAsk(ctx, func(ctx context.Context, resp []byte, m p2p.Message[Addr]) int {
							callback(o, m)
							id := o.CbMsgs[len(o.CbMsgs)-1]
							ret := id%5 - 1 // -1..3: negative means handler failure
							if ret >= 0 {
								copy(resp, respFor(id, ret))
							}
							o.CbRet = append(o.CbRet, ret)
							return ret
						})
					} else {
						o.Err = tell.Receive(ctx, func(m p2p.Message[Addr]) { callback(o, m) })
					}
					o.Ret = sim.Step
					zsimrt.Yield("harness/after-receive")
				}
			})
		}
		if doClose {
			delay := st.Intn(12)
			zsimrt.Go("closer", func() {
				for i := 0; i < delay; i++ {
					zsimrt.Yield("harness/close-wait")
				}
				var reason error
				if customErr {
					reason = errCustomClose
				}
				w.closeErr = reason
				w.closeBeg = sim.Step
				res.Fault("close")
				if ask {
					askh.CloseWithError(reason)
				} else {
					tell.CloseWithError(reason)
				}
				w.closedAt = sim.Step
			})
		}
	})
	w.judge(ask)
	fillStats(res, sim)
}

func respFor(id, n int) []byte {
	b := make([]byte, n)
	for i := range b {
		b[i] = byte(id*31 + i)
	}
	return b
}

func fillStats(res *simcore.Result, sim *zsimrt.Sim) {
	res.Steps = sim.Step
	res.SimMs = sim.Now().Milliseconds()
	res.TraceHash = fmt.Sprintf("%016x", sim.TraceHash)
	res.NBigrams = len(sim.Bigrams)
	for k := range sim.Bigrams {
		if len(res.Bigrams) >= 64 {
			break
		}
		res.Bigrams = append(res.Bigrams, k)
	}
	res.ProbeN("multi-runnable-steps", sim.Stats.MultiRunnable)
	if sim.Stats.AnonTasks > 0 {
		res.ProbeN("unidentified-tasks", sim.Stats.AnonTasks)
	}
	if sim.Stats.HitStepCap {
		res.Probe("hit-step-cap")
	}
	if sim.LogOn {
		res.Log = sim.Log
	}
}

// judge evaluates the rendezvous specification over the recorded history. The
// run has ended at a quiescent point with nothing runnable, so an operation
// that has not returned is blocked for good.
func (w *hubWorld) judge(ask bool) {
	res, sim := w.res, w.sim
	end := sim.Step
	if sim.Stats.HitStepCap {
		res.Violate(end, "no-quiescence", "step cap hit: the system did not quiesce")
		return
	}
	seenBy := map[int][]*op{}
	cbIndex := map[*op]map[int]int{}
	for _, o := range w.ops {
		if o.Kind != "receive" {
			continue
		}
		cbIndex[o] = map[int]int{}
		for i, id := range o.CbMsgs {
			seenBy[id] = append(seenBy[id], o)
			cbIndex[o][id] = i
		}
	}
	closed := w.closedAt >= 0
	wantCloseErr := w.closeErr
	if wantCloseErr == nil {
		wantCloseErr = p2p.ErrClosed
	}
	legitErr := func(o *op) (string, bool) {
		// an error return must be the context's error (context was cancelled before
		// the return) or the close reason (close had begun before the return)
		if o.Err == nil {
			return "", true
		}
		if errors.Is(o.Err, context.Canceled) {
			if o.CancelAt >= 0 && o.CancelAt <= o.Ret {
				return "", true
			}
			return "context error although the context was not cancelled", false
		}
		if w.closeBeg >= 0 && w.closeBeg <= o.Ret {
			if errors.Is(o.Err, wantCloseErr) {
				return "", true
			}
			return fmt.Sprintf("error %v is not the close reason %v", o.Err, wantCloseErr), false
		}
		return fmt.Sprintf("unexpected error %v", o.Err), false
	}
	var blockedDeliver, blockedReceive []*op
	for _, o := range w.ops {
		res.Checks++
		switch o.Kind {
		case "deliver":
			rs := seenBy[o.Msg]
			if len(rs) > 1 {
				res.Violate(end, "delivered-twice", "message %d was seen by %d callbacks", o.Msg, len(rs))
			}
			if o.Ret < 0 {
				if o.Call == 0 {
					continue // never started
				}
				if len(rs) == 1 {
					i := cbIndex[rs[0]][o.Msg]
					if i < len(rs[0].CbEnd) {
						res.Violate(end, "deliver-stuck-after-callback", "deliver of %d never returned although its callback finished at step %d", o.Msg, rs[0].CbEnd[i])
					}
					continue // callback itself still blocked/parked: cannot be
				}
				if o.CancelAt >= 0 {
					res.Violate(end, "cancel-not-prompt", "deliver of %d still blocked at quiescence although its context was cancelled at step %d", o.Msg, o.CancelAt).With("op", "deliver")
				} else if closed {
					res.Violate(end, "blocked-after-close", "deliver of %d still blocked at quiescence although close returned at step %d", o.Msg, w.closedAt).With("op", "deliver")
				} else {
					blockedDeliver = append(blockedDeliver, o)
				}
				continue
			}
			if o.Err == nil {
				if ask && closed && len(rs) == 0 {
					res.Violate(end, "deliver-nil-without-callback", "ask deliver of %d returned (n=%d, nil) but no handler saw it (hub closed=%v reason=%v)", o.Msg, o.N, closed, w.closeErr).With("closed", true).With("nilReason", w.closeErr == nil)
					continue
				}
				if len(rs) != 1 {
					res.Violate(end, "deliver-nil-without-callback", "deliver of %d returned nil but %d callbacks saw it", o.Msg, len(rs)).With("closed", closed)
					continue
				}
				i := cbIndex[rs[0]][o.Msg]
				if i >= len(rs[0].CbEnd) || rs[0].CbEnd[i] > o.Ret {
					res.Violate(end, "deliver-returned-before-callback-finished", "deliver of %d returned at step %d before its callback finished", o.Msg, o.Ret)
				}
				if ask && i < len(rs[0].CbRet) && rs[0].CbRet[i] != o.N {
					res.Violate(end, "ask-n-mismatch", "deliver of %d returned n=%d, handler returned %d", o.Msg, o.N, rs[0].CbRet[i])
				}
			} else {
				if len(rs) != 0 {
					res.Violate(end, "deliver-error-but-seen", "deliver of %d returned %v but a callback saw the message", o.Msg, o.Err)
				}
				if why, ok := legitErr(o); !ok {
					res.Violate(end, "deliver-wrong-error", "deliver of %d: %s", o.Msg, why)
				}
			}
		case "receive":
			if o.Ret < 0 {
				if o.Call == 0 {
					continue
				}
				if len(o.CbStart) > len(o.CbEnd) {
					continue // inside callback (harness yield) - cannot happen at idle
				}
				if o.CancelAt >= 0 {
					res.Violate(end, "cancel-not-prompt", "receive still blocked at quiescence although its context was cancelled at step %d", o.CancelAt).With("op", "receive")
				} else if closed {
					res.Violate(end, "blocked-after-close", "receive (called at step %d) still blocked at quiescence although close returned at step %d", o.Call, w.closedAt).With("op", "receive").With("calledBeforeClose", o.Call < w.closeBeg)
				} else {
					blockedReceive = append(blockedReceive, o)
				}
				continue
			}
			if o.Err == nil {
				if len(o.CbMsgs) != 1 {
					res.Violate(end, "receive-nil-callbacks", "receive returned nil but its callback ran %d times (closed=%v)", len(o.CbMsgs), closed).With("closed", closed).With("nilReason", w.closeErr == nil)
				}
			} else {
				if len(o.CbMsgs) != 0 {
					res.Violate(end, "receive-error-with-callback", "receive returned %v after running its callback", o.Err)
				}
				if why, ok := legitErr(o); !ok {
					res.Violate(end, "receive-wrong-error", "receive: %s", why)
				}
			}
		}
	}
	if len(blockedDeliver) > 0 && len(blockedReceive) > 0 {
		res.Violate(end, "lost-wakeup", "open hub at quiescence with %d blocked deliverers and %d blocked receivers", len(blockedDeliver), len(blockedReceive))
	}
	ndel := 0
	for _, o := range w.ops {
		if o.Kind == "deliver" && o.Err == nil && o.Ret >= 0 {
			ndel++
		}
	}
	res.ProbeN("delivered", ndel)
	if len(blockedDeliver) > 0 {
		res.Probe("deliverer-left-waiting")
	}
	if len(blockedReceive) > 0 {
		res.Probe("receiver-left-waiting")
	}
	res.Nontrivial = ndel > 0 && sim.Stats.MultiRunnable > 0
	if len(res.Faults) == 0 {
		// fault-free runs still count when several tasks competed
		res.Nontrivial = ndel > 1 && sim.Stats.MultiRunnable > 2
	}
	var sample []string
	for _, o := range w.ops {
		sample = append(sample, fmt.Sprintf("%s %s msg=%d call=%d ret=%d err=%v cb=%v cancel=%d", o.Task, o.Kind, o.Msg, o.Call, o.Ret, o.Err, o.CbMsgs, o.CancelAt))
	}
	if len(sample) > 12 {
		sample = sample[:12]
	}
	res.Sample = sample
}
