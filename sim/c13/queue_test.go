package c13

import (
	"bytes"
	"context"
	"errors"
	"fmt"
	"sort"
	"strings"
	"time"

	"github.com/anishathalye/porcupine"
	"go.brendoncarroll.net/p2p"
	"go.brendoncarroll.net/p2p/s/swarmutil"
	"go.brendoncarroll.net/p2p/zsimrt"

	"verifsim/simcore"
)

// ---- sequential reference model of the bounded queue ------------------------

type qIn struct {
	Kind string // deliver | take | recverr | release | closesignal | closedone
	ID   int
	Len  int
	// Overlap is the number of other Deliver calls concurrent with this one: each
	// of them may hold a slot it has taken from the freelist but not yet queued,
	// so a refusal is legal when those could account for the missing room.
	Overlap int
}
type qOut struct {
	OK   bool
	ID   int
	Kind string // recverr: ctx | closed
}

type qState struct {
	q       string // comma separated ids
	held    int
	closing bool // Close has signalled: operations may refuse
	closed  bool // Close has returned: everything refuses, queue is empty
}

func queueModel(capacity, mtu int) porcupine.Model {
	return porcupine.Model{
		Init: func() interface{} { return qState{} },
		Step: func(state, input, output interface{}) (bool, interface{}) {
			s := state.(qState)
			in := input.(qIn)
			out := output.(qOut)
			var ids []string
			if s.q != "" {
				ids = strings.Split(s.q, ",")
			}
			switch in.Kind {
			case "deliver":
				accept := in.Len <= mtu && !s.closed && len(ids)+s.held < capacity
				if s.closing && !s.closed && !out.OK {
					// while Close is in progress a refusal is always legal
					return true, s
				}
				if !out.OK && in.Len <= mtu && !s.closed && len(ids)+s.held+in.Overlap >= capacity {
					return true, s
				}
				if out.OK != accept {
					return false, s
				}
				if accept {
					ids = append(ids, fmt.Sprint(in.ID))
					s.q = strings.Join(ids, ",")
				}
				return true, s
			case "take":
				// open queue: strictly the head. While Close is draining, Close itself
				// pulls from the same head, so any prefix may already be gone.
				idx := -1
				for i, x := range ids {
					if x == fmt.Sprint(out.ID) {
						idx = i
						break
					}
				}
				if idx < 0 || (idx > 0 && !s.closing) {
					return false, s
				}
				s.q = strings.Join(ids[idx+1:], ",")
				s.held++
				return true, s
			case "recverr":
				if out.Kind == "closed" && !s.closing {
					return false, s
				}
				if out.Kind == "other" {
					return false, s
				}
				return true, s
			case "release":
				if s.held == 0 {
					return false, s
				}
				s.held--
				return true, s
			case "closesignal":
				s.closing = true
				return true, s
			case "closedone":
				// Close returns only after every slot is back: nothing is held, and
				// whatever was still queued is dropped
				if !s.closing || s.held != 0 {
					return false, s
				}
				s.closed = true
				s.q = ""
				return true, s
			}
			return false, s
		},
		Equal: func(a, b interface{}) bool { return a.(qState) == b.(qState) },
		DescribeOperation: func(input, output interface{}) string {
			return fmt.Sprintf("%+v -> %+v", input, output)
		},
	}
}

func runQueue(st *simcore.Stream, tier string, logOn bool, res *simcore.Result) {
	sim := zsimrt.New(st)
	sim.LogOn = logOn
	sim.StopWhenIdle = true
	sim.MaxSteps = 6000

	capacity := 1 + st.Intn(4)
	mtu := 8 + st.Intn(24)
	nProd := 1 + st.Intn(3)
	nRecv := 1 + st.Intn(3)
	perProd := 1 + st.Intn(4)
	perRecv := 1 + st.Intn(4)
	doClose := st.Bool(1, 3)
	// Queue.Purge is not part of the workload: it is outside the statement and
	// unused in the repository (it can block forever when it races a Receive).
	purge := false
	cancelNum := st.Intn(3)
	res.Cfg = map[string]any{"cap": capacity, "mtu": mtu, "prod": nProd, "recv": nRecv, "perProd": perProd, "perRecv": perRecv, "close": doClose, "purge": purge, "cancel": cancelNum}

	q := swarmutil.NewQueue[Addr](capacity, mtu)
	payloads := map[int][]byte{}
	var hist []porcupine.Operation
	client := 0
	accepted := map[int]bool{}
	received := map[int]int{}
	purged := 0
	closeBeg, closedAt := -1, -1
	type rop struct {
		call, ret, cancelAt int
		err                 error
		cbs                 int
	}
	var rops []*rop

	sim.Run(func() {
		id := 0
		for p := 0; p < nProd; p++ {
			var ids []int
			for j := 0; j < perProd; j++ {
				n := st.Intn(mtu + 3)
				if n < 2 {
					n = 2
				}
				b := make([]byte, n)
				st.Bytes(b)
				b[0], b[1] = byte(id>>8), byte(id)
				payloads[id] = b
				ids = append(ids, id)
				id++
			}
			client++
			cl := client
			useVec := st.Bool(1, 2)
			zsimrt.Go("prod", func() {
				for _, id := range ids {
					pl := payloads[id]
					buf := append([]byte{}, pl...)
					src, dst := Addr{N: id % 7}, Addr{N: 100 + id%5}
					zsimrt.Yield("harness/before-deliver")
					call := sim.Step
					var ok bool
					if useVec && len(pl) <= mtu {
						cut := len(buf) / 2
						ok = q.DeliverVec(src, dst, p2p.IOVec{buf[:cut], buf[cut:]})
					} else {
						ok = q.Deliver(p2p.Message[Addr]{Src: src, Dst: dst, Payload: buf})
					}
					ret := sim.Step
					// sender may reuse its buffer as soon as Deliver returns
					for i := range buf {
						buf[i] = 0xEE
					}
					if ok {
						accepted[id] = true
					}
					hist = append(hist, porcupine.Operation{ClientId: cl, Input: qIn{Kind: "deliver", ID: id, Len: len(pl)}, Call: int64(call), Output: qOut{OK: ok}, Return: int64(ret)})
					zsimrt.Yield("harness/after-deliver")
				}
			})
		}
		for r := 0; r < nRecv; r++ {
			client++
			cl := client
			zsimrt.Go("recv", func() {
				for j := 0; j < perRecv; j++ {
					o := &rop{ret: -1, cancelAt: -1}
					ctx := context.Background()
					if cancelNum > 0 && st.Bool(cancelNum, 4) {
						c, cf := context.WithCancel(ctx)
						delay := st.Intn(8)
						zsimrt.Go("cancel", func() {
							for i := 0; i < delay; i++ {
								zsimrt.Yield("harness/cancel-wait")
							}
							o.cancelAt = sim.Step
							res.Fault("cancel")
							cf()
						})
						ctx = c
					}
					rops = append(rops, o)
					zsimrt.Yield("harness/before-receive")
					o.call = sim.Step
					cbEnd := -1
					o.err = q.Receive(ctx, func(m p2p.Message[Addr]) {
						o.cbs++
						cbStart := sim.Step
						mid := -1
						if len(m.Payload) >= 2 {
							mid = int(m.Payload[0])<<8 | int(m.Payload[1])
						}
						received[mid]++
						res.Checks++
						if want, ok := payloads[mid]; !ok || !bytes.Equal(want, m.Payload) {
							res.Violate(sim.Step, "payload-mismatch", "queue callback saw %x, ledger has %x (id %d)", m.Payload, want, mid)
						}
						if m.Src.N != mid%7 || m.Dst.N != 100+mid%5 {
							res.Violate(sim.Step, "addr-mismatch", "queue callback saw src=%v dst=%v for id %d", m.Src, m.Dst, mid)
						}
						hist = append(hist, porcupine.Operation{ClientId: cl, Input: qIn{Kind: "take"}, Call: int64(o.call), Output: qOut{ID: mid}, Return: int64(cbStart)})
						snap := append([]byte{}, m.Payload...)
						for i, k := 0, st.Intn(4); i < k; i++ {
							zsimrt.Yield("harness/in-callback")
						}
						if !bytes.Equal(snap, m.Payload) {
							res.Violate(sim.Step, "buffer-changed-in-callback", "payload changed while the callback was running (id %d)", mid)
						}
						cbEnd = sim.Step
					})
					o.ret = sim.Step
					if o.err == nil {
						if cbEnd >= 0 {
							hist = append(hist, porcupine.Operation{ClientId: cl, Input: qIn{Kind: "release"}, Call: int64(cbEnd), Output: qOut{}, Return: int64(o.ret)})
						}
					} else {
						kind := "other"
						if errors.Is(o.err, context.Canceled) {
							kind = "ctx"
						} else if errors.Is(o.err, p2p.ErrClosed) {
							kind = "closed"
						}
						hist = append(hist, porcupine.Operation{ClientId: cl, Input: qIn{Kind: "recverr"}, Call: int64(o.call), Output: qOut{Kind: kind}, Return: int64(o.ret)})
					}
					zsimrt.Yield("harness/after-receive")
				}
			})
		}
		if purge {
			delay := st.Intn(20)
			zsimrt.Go("purger", func() {
				for i := 0; i < delay; i++ {
					zsimrt.Yield("harness/purge-wait")
				}
				res.Fault("purge")
				purged += q.Purge()
			})
		}
		if doClose {
			delay := st.Intn(25)
			client++
			cl := client
			zsimrt.Go("closer", func() {
				for i := 0; i < delay; i++ {
					zsimrt.Yield("harness/close-wait")
				}
				closeBeg = sim.Step
				res.Fault("close")
				q.Close()
				closedAt = sim.Step
				hist = append(hist, porcupine.Operation{ClientId: cl, Input: qIn{Kind: "closesignal"}, Call: int64(closeBeg), Output: qOut{}, Return: int64(closedAt)})
				hist = append(hist, porcupine.Operation{ClientId: cl, Input: qIn{Kind: "closedone"}, Call: int64(closeBeg), Output: qOut{}, Return: int64(closedAt)})
			})
		}
	})
	end := sim.Step
	fillStats(res, sim)
	if sim.Stats.HitStepCap {
		res.Violate(end, "no-quiescence", "step cap hit: the queue workload did not quiesce")
		return
	}
	// ---- conservation and uniqueness ----
	nrecv := 0
	for id, n := range received {
		nrecv += n
		res.Checks++
		if n > 1 {
			res.Violate(end, "delivered-twice", "queue message %d was received %d times", id, n)
		}
		if !accepted[id] {
			res.Violate(end, "received-but-not-accepted", "queue message %d was received but Deliver never returned true for it", id)
		}
	}
	if closedAt < 0 && closeBeg < 0 {
		left := q.Len()
		res.Checks++
		if len(accepted) != nrecv+purged+left {
			res.Violate(end, "conservation", "accepted=%d != received=%d + purged=%d + queued=%d", len(accepted), nrecv, purged, left)
		}
	}
	// ---- blocked receivers ----
	for _, o := range rops {
		if o.ret >= 0 || o.call == 0 {
			if o.ret >= 0 && o.err != nil {
				res.Checks++
				switch {
				case errors.Is(o.err, context.Canceled):
					if !(o.cancelAt >= 0 && o.cancelAt <= o.ret) {
						res.Violate(end, "receive-wrong-error", "queue receive returned a context error although its context was not cancelled")
					}
				case errors.Is(o.err, p2p.ErrClosed):
					if !(closeBeg >= 0 && closeBeg <= o.ret) {
						res.Violate(end, "receive-wrong-error", "queue receive returned ErrClosed although Close had not been called")
					}
				default:
					res.Violate(end, "receive-wrong-error", "queue receive returned unexpected error %v", o.err)
				}
				if o.cbs != 0 {
					res.Violate(end, "receive-error-with-callback", "queue receive returned %v after running its callback", o.err)
				}
			}
			if o.ret >= 0 && o.err == nil && o.cbs != 1 {
				res.Violate(end, "receive-nil-callbacks", "queue receive returned nil but its callback ran %d times", o.cbs)
			}
			continue
		}
		switch {
		case o.cancelAt >= 0:
			res.Violate(end, "cancel-not-prompt", "queue receive still blocked at quiescence although its context was cancelled at step %d", o.cancelAt).With("op", "queue-receive")
		case closedAt >= 0:
			res.Violate(end, "blocked-after-close", "queue receive still blocked at quiescence although Close returned at step %d", closedAt).With("op", "queue-receive")
		case closeBeg < 0 && !purge && q.Len() > 0:
			res.Violate(end, "lost-wakeup", "queue receive blocked at quiescence while %d messages are queued", q.Len())
		}
	}
	if closeBeg >= 0 && closedAt < 0 {
		// Close blocks until every slot is back; at quiescence every callback has
		// finished, so it must have returned
		res.Violate(end, "close-stuck", "Queue.Close called at step %d never returned", closeBeg)
	}
	// ---- linearizability against the bounded FIFO ----
	if !purge && len(hist) > 0 && len(hist) <= 60 {
		sort.SliceStable(hist, func(i, j int) bool { return hist[i].Call < hist[j].Call })
		for i := range hist {
			in, ok := hist[i].Input.(qIn)
			if !ok || in.Kind != "deliver" {
				continue
			}
			for j := range hist {
				if jn, ok := hist[j].Input.(qIn); ok && j != i && jn.Kind == "deliver" && hist[j].Call <= hist[i].Return && hist[i].Call <= hist[j].Return {
					in.Overlap++
				}
			}
			hist[i].Input = in
		}
		r := porcupine.CheckOperationsTimeout(queueModel(capacity, mtu), hist, 5*time.Second)
		res.Checks++
		switch r {
		case porcupine.Illegal:
			var lines []string
			for _, h := range hist {
				lines = append(lines, fmt.Sprintf("c%d [%d,%d] %+v -> %+v", h.ClientId, h.Call, h.Return, h.Input, h.Output))
			}
			res.Violate(end, "not-linearizable", "queue history is not linearizable against a bounded FIFO (cap %d, mtu %d)", capacity, mtu).With("history", lines)
		case porcupine.Unknown:
			res.Probe("porcupine-unknown")
		default:
			res.Probe("porcupine-ok")
		}
	}
	res.ProbeN("queue-accepted", len(accepted))
	res.ProbeN("queue-received", nrecv)
	res.Nontrivial = nrecv > 0 && sim.Stats.MultiRunnable > 0
	var sample []string
	for _, h := range hist {
		sample = append(sample, fmt.Sprintf("c%d [%d,%d] %+v -> %+v", h.ClientId, h.Call, h.Return, h.Input, h.Output))
	}
	if len(sample) > 14 {
		sample = sample[:14]
	}
	res.Sample = sample
}
