package c13

import "verifsim/simcore"

func runQueue(st *simcore.Stream, tier string, logOn bool, res *simcore.Result) {
	panic("queue leg not built yet")
}
